"""Shared plumbing: paths, evidence writer, known findings, replay files, exit codes."""
import hashlib
import json
import os
import sys
import time

VERIF = os.path.dirname(os.path.dirname(os.path.abspath(__file__)))
REPO = os.environ.get("VERIF_REPO", "/repo")
WORK = os.environ.get("VERIF_WORK", os.path.join(VERIF, "work"))
TARGET = os.environ.get("VERIF_TARGET", os.path.join(VERIF, "target"))
# runs against a scratch copy (VERIF_REPO) or under the mutant self-test (VERIF_SCRATCH=1) must not clobber the
# evidence of /repo itself
_ALT = REPO != "/repo" or os.environ.get("VERIF_SCRATCH") == "1"
EVID = os.path.join(WORK, "scratch_evidence") if _ALT else os.path.join(VERIF, "evidence")
REPLAYS = os.path.join(WORK, "scratch_replays") if _ALT else os.path.join(VERIF, "replays")
NCPU = int(os.environ.get("VERIF_JOBS", "16"))


class MachineryError(Exception):
    """Something in the harness itself failed (build of the reference, engine crash, timeout).
    Never a verdict: the check exits 2 and prints no VIOLATION line."""


def seed():
    try:
        return int(os.environ.get("VERIF_SEED", "0"))
    except ValueError:
        return 0


def cargo_env(extra=None):
    env = dict(os.environ)
    env["CARGO_NET_OFFLINE"] = "true"
    env["CARGO_TERM_COLOR"] = "never"
    env.pop("RUSTFLAGS", None)
    env["RUST_BACKTRACE"] = "0"
    if extra:
        env.update(extra)
    return env


def write_if_changed(path, text):
    try:
        with open(path) as f:
            if f.read() == text:
                return False
    except FileNotFoundError:
        pass
    os.makedirs(os.path.dirname(path), exist_ok=True)
    with open(path, "w") as f:
        f.write(text)
    return True


def known_findings():
    with open(os.path.join(VERIF, "known_findings.json")) as f:
        return [e for e in json.load(f)["findings"] if e.get("status") == "known"]


class Violation:
    def __init__(self, prop, key, what, detail):
        self.prop = prop
        self.key = key  # canonical identification (macro + DSL text + row/schedule class)
        self.what = what  # one line
        self.detail = detail  # json-able dict


class Report:
    """Collects what one check run explored; writes evidence + replay files; decides the exit code."""

    def __init__(self, prop, tier, level, technique=""):
        self.prop = prop
        self.tier = tier
        self.level = level
        self.t0 = time.time()
        self.cov = {}
        self.assumptions = []
        self.violations = []
        self.samples = []
        self.notes = []
        self.exhaustive = True

    def add(self, key, n):
        self.cov[key] = self.cov.get(key, 0) + n

    def set(self, key, v):
        self.cov[key] = v

    def sample(self, s, cap=6):
        if len(self.samples) < cap:
            self.samples.append(s)

    def violate(self, key, what, detail):
        self.violations.append(Violation(self.prop, key, what, detail))

    def finish(self):
        known = known_findings()
        unlisted = []
        printed_known = set()
        for v in self.violations:
            k = next((e for e in known if e["property"] == v.prop and e["key"] == v.key), None)
            if k is not None:
                if k["key"] not in printed_known:
                    print("KNOWN-FINDING: property=%s %s" % (v.prop, k["what"]))
                    printed_known.add(k["key"])
            else:
                unlisted.append(v)
        os.makedirs(REPLAYS, exist_ok=True)
        os.makedirs(EVID, exist_ok=True)
        shown = 0
        seen_keys = set()
        for v in unlisted:
            if v.key in seen_keys:
                continue
            seen_keys.add(v.key)
            if shown >= 10:
                break
            h = hashlib.sha1(v.key.encode()).hexdigest()[:12]
            path = os.path.join(REPLAYS, "%s-%s.json" % (v.prop, h))
            with open(path, "w") as f:
                json.dump({"property": v.prop, "key": v.key, "what": v.what, "detail": v.detail}, f, indent=1)
            print("VIOLATION property=%s replay=%s" % (v.prop, path))
            print("  " + v.what[:400])
            shown += 1
        cov = dict(self.cov)
        cov["samples"] = self.samples if self.samples else ["<none>"]
        cov["exhaustive"] = bool(self.exhaustive)
        if self.notes:
            cov["notes"] = self.notes
        ev = {
            "property_id": self.prop,
            "tier": self.tier,
            "seed": seed(),
            "level": self.level,
            "coverage": cov,
            "assumptions": self.assumptions,
            "wall_s": round(time.time() - self.t0, 2),
            "violations": len(unlisted),
            "known_findings_matched": len(self.violations) - len(unlisted),
        }
        with open(os.path.join(EVID, "%s.json" % self.prop), "w") as f:
            json.dump(ev, f, indent=1)
        summary = {k: v for k, v in cov.items() if isinstance(v, (int, float, bool))}
        print("%s %s: %s wall=%.1fs violations=%d" % (self.prop, self.tier, json.dumps(summary), ev["wall_s"], len(unlisted)))
        return 1 if unlisted else 0
