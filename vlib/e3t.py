"""E3-T — thread-schedule explorer driver: generates one harness crate whose `::std` is the vstd shim, so the
UNMODIFIED macro output spawns through the baton scheduler (rt/vsched); runs it sharded over 16 processes."""
import json
import os
import shutil
import subprocess
import time
from concurrent.futures import ThreadPoolExecutor

from .common import NCPU, REPO, TARGET, VERIF, WORK, MachineryError, cargo_env, write_if_changed
from .e2 import _attribute

HEADER = """#![no_std]
#![allow(warnings)]
#![recursion_limit = "1024"]
extern crate vstd as std;
use std::prelude::v1::*;
use std::{format, vec, println, panic, unreachable, assert, assert_eq};
use vrt::*;
use join::*;
use vsched::harness::TProg;
"""


class TProg:
    def __init__(self, id, ref, mac, rows=((0,),), sub=(), panics=(), depths=(), callers=("main",), check_threads=False, pbound=None, cap=400000, maxd=4, meta=None, names=()):
        self.names = list(names)
        self.id = id
        self.ref = ref
        self.mac = mac
        self.rows = [list(r) for r in rows]
        self.sub = list(sub)
        self.panics = list(panics)
        self.depths = list(depths)
        self.callers = list(callers)
        self.check_threads = check_threads
        self.pbound = pbound
        self.cap = cap
        self.maxd = maxd
        self.meta = meta or {}


def _rs_opt_str(c):
    return "None" if c is None else "Some(%s)" % json.dumps(c, ensure_ascii=False)


def render(sets):
    """sets: {name: [TProg]} -> (text, ranges, fn index)"""
    lines = HEADER.split("\n")
    if lines[-1] == "":
        lines.pop()
    ranges = []
    fns = {}  # (ref, mac) -> index
    plist = []

    def emit(text, idx, part):
        start = len(lines) + 1
        lines.extend(text.split("\n"))
        ranges.append((start, len(lines), idx, part))

    for name in sorted(sets):
        for p in sets[name]:
            key = (p.ref, p.mac)
            if key not in fns:
                i = len(fns)
                fns[key] = i
                plist.append(p)
                lines.append("pub mod f%d {" % i)
                lines.append("use super::*;")
                emit("pub fn r() -> String {\n%s\n}" % p.ref, i, "r")
                emit("pub fn m() -> String {\n%s\n}" % p.mac, i, "m")
                lines.append("}")
    lines.append("fn main() {")
    lines.append('    let set = std::env::var("VS_SET").unwrap_or_default();')
    for name in sorted(sets):
        lines.append("    if set == %s {" % json.dumps(name))
        lines.append("        vsched::harness::drive(&[")
        for p in sets[name]:
            i = fns[(p.ref, p.mac)]
            rows = ", ".join("&[%s]" % ", ".join(str(x) for x in r) for r in p.rows)
            lines.append(
                "            TProg { id: %s, r: f%d::r, m: f%d::m, rows: &[%s], sub: &[%s], panics: &[%s], depths: &[%s], callers: &[%s], maxd: %d, check_threads: %s, names: &[%s], pbound: %s, cap: %d },"
                % (
                    json.dumps(p.id), i, i, rows,
                    ", ".join(map(str, p.sub)), ", ".join(map(str, p.panics)), ", ".join(map(str, p.depths)),
                    ", ".join(_rs_opt_str(c) for c in p.callers), p.maxd,
                    "true" if p.check_threads else "false",
                    ", ".join("(%s, %s)" % (json.dumps(a), json.dumps(b)) for a, b in p.names),
                    "None" if p.pbound is None else "Some(%d)" % p.pbound, p.cap,
                )
            )
        lines.append("        ]);")
        lines.append("    }")
    lines.append("}")
    return "\n".join(lines) + "\n", ranges, plist


class SetResult:
    def __init__(self):
        self.programs = 0
        self.rows = 0
        self.executions = 0
        self.decisions = 0
        self.states = 0
        self.nontrivial = 0
        self.capped = 0
        self.violations = []  # (TProg, dict)
        self.compile_violations = []
        self.results = {}
        self.selftest = None
        self.build_s = 0.0
        self.run_s = 0.0
        self.max_orders = 0
        self.hung = []


def build(name, sets, timeout=3000):
    """Build the harness crate `name` containing the given sets. Returns (exe, compile_violations)."""
    d = os.path.join(WORK, "e3t", name)
    os.makedirs(os.path.join(d, "src"), exist_ok=True)
    pkg = "e3t_%s" % name
    write_if_changed(
        os.path.join(d, "Cargo.toml"),
        "[package]\nname = %s\nversion = \"0.1.0\"\nedition = \"2018\"\n\n[dependencies]\njoin = { path = \"%s/join\" }\nvrt = { path = \"%s/rt/vrt\" }\nvsched = { path = \"%s/rt/vsched\" }\nvstd = { path = \"%s/rt/vstd\" }\n\n[profile.dev]\ndebug = 0\nincremental = false\nopt-level = 0\n\n[workspace]\n"
        % (json.dumps(pkg), REPO, VERIF, VERIF, VERIF),
    )
    lock = os.path.join(d, "Cargo.lock")
    if not os.path.exists(lock):
        shutil.copyfile(os.path.join(REPO, "Cargo.lock"), lock)
    target = os.path.join(TARGET, "e3t")
    compile_violations = []
    excluded = set()
    for attempt in range(4):
        cur = {k: [p for p in v if p.id not in excluded] for k, v in sets.items()}
        text, ranges, plist = render(cur)
        write_if_changed(os.path.join(d, "src", "main.rs"), text)
        proc = subprocess.run(
            ["cargo", "build", "--offline", "--message-format=json", "-q"],
            cwd=d, env=cargo_env({"CARGO_TARGET_DIR": target}), stdout=subprocess.PIPE, stderr=subprocess.PIPE, text=True, timeout=timeout,
        )
        if proc.returncode == 0:
            return os.path.join(target, "debug", pkg), compile_violations
        errs = []
        for line in proc.stdout.splitlines():
            if not line.startswith("{"):
                continue
            m = json.loads(line)
            if m.get("reason") != "compiler-message" or m["message"].get("level") != "error":
                continue
            if m["message"].get("message", "").startswith("aborting due to"):
                continue
            tname = m.get("target", {}).get("name", "")
            if tname != pkg:
                raise MachineryError("build of %s failed in dependency %s:\n%s" % (pkg, tname, m["message"].get("rendered", "")[:3000]))
            at = _attribute(m["message"], {pkg: ranges}, pkg)
            errs.append((at, m["message"].get("rendered", "")))
        if not errs:
            raise MachineryError("cargo build of %s failed:\n%s" % (pkg, proc.stderr[-3000:]))
        for at, rendered in errs:
            if at is None:
                raise MachineryError("unattributable compile error in %s:\n%s" % (pkg, rendered[:3000]))
            idx, part = at
            p = plist[idx]
            if part != "m":
                raise MachineryError("compile error in the reference of %s:\n%s" % (p.id, rendered[:3000]))
            # exclude every TProg sharing this function
            for v in sets.values():
                for q in v:
                    if (q.ref, q.mac) == (p.ref, p.mac) and q.id not in excluded:
                        excluded.add(q.id)
                        compile_violations.append((q, rendered[:3000]))
    raise MachineryError("harness %s still does not build after excluding %d programs" % (name, len(excluded)))


def run_set(exe, setname, progs, shards=None, timeout=3000):
    res = SetResult()
    shards = shards or NCPU
    t0 = time.time()

    # a shard normally needs seconds (quick) / minutes (thorough); an execution that blocks forever inside the code under test
    # (a poll or a thread that never returns) is turned into a verdict for the program that was running
    limit = int(os.environ.get("VERIF_E3_TIMEOUT", "240" if os.environ.get("VERIF_TIER_RUNNING", "quick") == "quick" else "3000"))
    order = [p.id for p in progs]
    hung = []

    def one(s):
        try:
            p = subprocess.run([exe], env=cargo_env({"VS_SET": setname, "VS_SHARD": str(s), "VS_NSHARDS": str(shards)}), stdout=subprocess.PIPE, stderr=subprocess.PIPE, text=True, timeout=limit)
        except subprocess.TimeoutExpired as e:
            out = e.stdout.decode() if isinstance(e.stdout, bytes) else (e.stdout or "")
            done = set()
            for line in out.splitlines():
                if line.startswith("{") and '"id"' in line:
                    try:
                        done.add(json.loads(line)["id"])
                    except ValueError:
                        pass
            mine = [pid for i, pid in enumerate(order) if i % shards == s]
            first = next((pid for pid in mine if pid not in done), None)
            hung.append((first, [pid for pid in mine if pid not in done]))
            return out
        if p.returncode != 0:
            raise MachineryError("E3-T shard %d of set %s exited with %d:\n%s" % (s, setname, p.returncode, p.stderr[-2000:]))
        return p.stdout

    with ThreadPoolExecutor(max_workers=shards) as ex:
        outs = list(ex.map(one, range(shards)))
    res.run_s = time.time() - t0
    by_id = {p.id: p for p in progs}
    for out in outs:
        for line in out.splitlines():
            if not line.startswith("{"):
                continue
            d = json.loads(line)
            if d.get("selftest"):
                res.selftest = d
                continue
            res.results[d["id"]] = d
            res.rows += d["rows"]
            res.executions += d["executions"]
            res.decisions += d["decisions"]
            res.states += d["states"]
            res.max_orders = max(res.max_orders, d["max_orders_per_row"])
            if d["capped"]:
                res.capped += 1
            if d["max_orders_per_row"] >= 2:
                res.nontrivial += 1
            if not d["replay_ok"]:
                raise MachineryError("replaying a schedule of %s twice gave different observations (nondeterminism not owned by the scheduler)" % d["id"])
            for v in d["viols"]:
                if v["what"].startswith("MACHINERY"):
                    raise MachineryError("%s: %s" % (d["id"], v["what"]))
                if not v["replay_identical"]:
                    raise MachineryError("violation of %s did not reproduce when its schedule was replayed: %s" % (d["id"], v["what"]))
                res.violations.append((by_id[d["id"]], v, d["nviol"]))
    res.programs = len(progs)
    res.hung = hung
    skipped = {pid for _, rest in hung for pid in rest}
    missing = [p.id for p in progs if p.id not in res.results and p.id not in skipped]
    if missing:
        raise MachineryError("no E3-T result for %d programs, e.g. %s" % (len(missing), missing[:3]))
    st = res.selftest
    if not st or st["executions"] != 90 or st["distinct_orders"] != 90 or not st["replay_identical"]:
        raise MachineryError("scheduler self-test failed (expected 90 orders of the 3x2 multinomial program, identical replay): %r" % (st,))
    return res
