"""C16 (behavioural half): custom joiners, lazy branches, the transpose switch, the futures crate path."""
from . import dsl
from . import fam_profiles as fp
from .e2 import Prog

PRE = r'''
macro_rules! jm { ($($x:expr),*) => {{ ev("j.x.a", &[$(stringify!($x)),*].len()); ($($x),*) }} }
macro_rules! jma { ($($x:expr),*) => {{ ev("j.x.a", &[$(stringify!($x)),*].len()); ::futures::join!($($x),*) }} }
macro_rules! jmta { ($($x:expr),*) => {{ ev("j.x.a", &[$(stringify!($x)),*].len()); ::futures::try_join!($($x),*) }} }
fn jf2<A, B>(a: A, b: B) -> (A, B) { ev("j.x.a", &2usize); (a, b) }
fn jf3<A, B, C>(a: A, b: B, c: C) -> (A, B, C) { ev("j.x.a", &3usize); (a, b, c) }
fn jl2<A, B>(a: impl FnOnce() -> A, b: impl FnOnce() -> B) -> (A, B) { ev("j.x.a", &2usize); let vb = b(); let va = a(); (va, vb) }
fn jl3<A, B, C>(a: impl FnOnce() -> A, b: impl FnOnce() -> B, c: impl FnOnce() -> C) -> (A, B, C) { ev("j.x.a", &3usize); let vc = c(); let vb = b(); let va = a(); (va, vb, vc) }
// lazy joiner that needs closures owning their captures (like a thread pool): `FnOnce() -> T + Send + 'static`
fn js2<A, B>(a: impl FnOnce() -> A + Send + 'static, b: impl FnOnce() -> B + Send + 'static) -> (A, B) { ev("j.x.a", &2usize); let vb = b(); let va = a(); (va, vb) }
macro_rules! jl { ($a:expr, $b:expr) => { jl2($a, $b) }; ($a:expr, $b:expr, $c:expr) => { jl3($a, $b, $c) } }
// async + lazy: every branch arrives as a zero-argument closure that returns the branch future
macro_rules! jla {
    ($a:expr, $b:expr) => {{ ev("j.x.a", &2usize); let (fa, fb) = ($a, $b); let (vb, va) = (fb(), fa()); ::futures::join!(va, vb) }};
    ($a:expr, $b:expr, $c:expr) => {{ ev("j.x.a", &3usize); let (fa, fb, fc) = ($a, $b, $c); let (vc, vb, va) = (fc(), fb(), fa()); ::futures::join!(va, vb, vc) }};
}
macro_rules! jlta {
    ($a:expr, $b:expr) => {{ ev("j.x.a", &2usize); let (fa, fb) = ($a, $b); let (vb, va) = (fb(), fa()); ::futures::try_join!(va, vb) }};
    ($a:expr, $b:expr, $c:expr) => {{ ev("j.x.a", &3usize); let (fa, fb, fc) = ($a, $b, $c); let (vc, vb, va) = (fc(), fb(), fa()); ::futures::try_join!(va, vb, vc) }};
}
'''


def constant_arity(ds):
    n = len(ds)
    return all(sum(1 for d in ds if d > k) in (n, 1, 0) for k in range(max(ds)))


def make(mac, opts, jn, cmp, ds, rich, tag="", anyof=None, **kw):
    is_try = mac.startswith("try")
    p = fp.build(mac, ds, flavour="Res" if is_try else None, rich=rich, **kw)
    p.options = [opts]
    d = dsl.program_dsl(p)
    anyof = (p.is_async and p.is_try) if anyof is None else anyof
    r = dsl.program_ref(p, anyof=anyof, joiner=jn)
    fmt = '\nformat!("{:?}", x)'
    if anyof:
        rb = "futures::executor::block_on(%s)" % r
    elif p.is_async:
        rb = "let x = futures::executor::block_on(%s);%s" % (r, fmt)
    else:
        rb = "let x = %s;%s" % (r, fmt)
    if p.is_async and p.is_spawn:
        mb = "let x = trt().block_on(%s);%s" % (d, fmt)
    elif p.is_async:
        mb = "let x = futures::executor::block_on(%s);%s" % (d, fmt)
    else:
        mb = "let x = %s;%s" % (d, fmt)
    sub = fp.fail_slots(ds) if (is_try and sum(ds) <= 6) else ()
    rows = [[0]] if is_try else fp.offset_rows()
    pid = "%s%s/%s/%s" % (tag, mac, opts.replace(" ", "+"), fp.pname(ds))
    return Prog(pid, rb, mb, rows, cmp, meta={"macro": mac, "dsl": d, "ref": r}, sub=sub)


def capture_programs(tier):
    """C11 under options: capture-rich depth profiles (a block capture in every step of every branch) behind a custom joiner,
    with eager and with lazy (closure) branches; the lazy sequential joiner runs the branches in REVERSE order, so a capture
    that is evaluated inside its branch closure (not hoisted before the step) shows up after another branch's expressions"""
    progs = []
    for ds in fp.profiles(3, 3):
        n = len(ds)
        if n < 2 or max(ds) < 2:
            continue
        variants = [
            ("join", "lazy_branches(true) custom_joiner(jl!)", {"when": "before", "reverse": True}, "Full"),
            ("try_join", "custom_joiner(jl!) lazy_branches(true)", {"when": "before", "reverse": True}, "Full"),
            ("join", "custom_joiner(jm!)", {"when": "before"}, "Full"),
            ("try_join", "custom_joiner(jm!)", {"when": "before"}, "Full"),
            ("join_spawn", "custom_joiner(jm!)", {"when": "before"}, "Proj"),
            ("join_async", "lazy_branches(true) custom_joiner(jla!)", {"when": "before"}, "Proj"),
            ("try_join_async", "custom_joiner(jlta!) lazy_branches(true)", {"when": "before"}, "TryAsync"),
            ("join_async_spawn", "custom_joiner(jma!)", {"when": "before"}, "Proj"),
        ]
        for mac, opts, jn, cmp in variants:
            if tier == "quick" and (sum(ds) > 6 or ("async" in mac and n == 3)):
                continue
            progs.append(make(mac, opts, jn, cmp, ds, rich=True, tag="cap/"))
    return progs


def closure_value_programs():
    """branches whose VALUE is a parameterless closure literal (`|| e`, `move || e`, behind `let`, with a later step): under
    lazy_branches(true) — and in the thread-spawning macros, which are lazy by default — the joiner / thread gets the macro's own
    wrapper and the branch still evaluates to the user's closure, which nobody has called yet"""
    progs = []
    b1d = 'st(4, 7) -> |v: i32| { ev("1.0.f", &v); v + 1 }'
    b1r = '(|v: i32| { ev("1.0.f", &v); v + 1 })(st(4, 7))'
    forms = [("plain", '|| { ev0("0.0.u"); 5 }', ""), ("move", 'move || { ev0("0.0.u"); 5 }', ""), ("let", '|| { ev0("0.0.u"); 5 }', "let th = ")]
    tail = '\nlet v0 = (x.0)();\nformat!("{:?}", (v0, x.1))'
    for fname, clo, let in forms:
        for mac, opts, lazy_rev in (("join", "lazy_branches(true) custom_joiner(jl!) ", True), ("join", "custom_joiner(jl!) lazy_branches(true) ", True), ("join_spawn", "", False), ("spawn", "", False), ("join", "custom_joiner(jm!) ", False)):
            d = "%s! { %s%s%s, %s }" % (mac, opts, let, clo, b1d)
            if lazy_rev:
                r = '{ ev("j.x.a", &2usize); let b = %s; let a = %s; (a, b) }' % (b1r, clo)
            elif "custom_joiner" in opts:
                # (the macro joiner logs its event before its arguments are evaluated)
                r = '{ ev("j.x.a", &2usize); let a = %s; let b = %s; (a, b) }' % (clo, b1r)
            else:
                r = '{ let a = %s; let b = %s; (a, b) }' % (clo, b1r)
            progs.append(Prog("closureval/%s/%s/%s" % (mac, fname, opts.replace(" ", "+") or "default"), "let x = %s;%s" % (r, tail), "let x = %s;%s" % (d, tail), [[0]], "Full" if mac == "join" else "Proj", meta={"macro": mac, "dsl": d, "ref": r}))
        # a later step consumes the closure
        d = 'join! { lazy_branches(true) custom_joiner(jl!) %s%s ~-> |f: fn() -> i32| { ev0("0.1.f"); f() + 1 }, %s }' % (let, clo, b1d)
        r = '{ ev("j.x.a", &2usize); let b = %s; let a = %s; let a = (|f: fn() -> i32| { ev0("0.1.f"); f() + 1 })(a); (a, b) }' % (b1r, clo.replace("|| {", "|| -> i32 {", 1))
        fmt = '\nformat!("{:?}", x)'
        progs.append(Prog("closureval/join/%s/step" % fname, "let x = %s;%s" % (r, fmt), "let x = %s;%s" % (d.replace("|| {", "|| -> i32 {", 1), fmt), [[0]], "Full", meta={"macro": "join", "dsl": d, "ref": r}))
    return progs


def owning_closure_programs():
    """lazy_branches(true): the branch closure is `move || ..` — it OWNS what it captures (Copy locals, the previous step's values), so a
    joiner may demand `Send + 'static` closures; explicit lazy_branches(true) on the thread-spawning macros is what they do anyway"""
    progs = []
    fmt = '\nformat!("{:?}", x)'
    for mac in ("join", "try_join"):
        is_try = mac == "try_join"
        w = (lambda e: "Some(%s)" % e) if is_try else (lambda e: e)
        op = "|>" if is_try else "->"
        d = "{ let k = int(63); %s! { lazy_branches(true) custom_joiner(js2) %s %s |v: i32| { ev(\"0.0.f\", &v); v + k } ~%s |v: i32| { ev(\"0.1.f\", &v); v + k }, %s ~%s |v: i32| { ev(\"1.1.f\", &v); v * 2 + k } } }" % (mac, w("st(0, 1)"), op, op, w("st(4, 5)"), op)
        body = "let k = int(63); ev(\"j.x.a\", &2usize); let b = st(4, 5); let a = (|v: i32| { ev(\"0.0.f\", &v); v + k })(st(0, 1)); ev(\"j.x.a\", &2usize); let b = (|v: i32| { ev(\"1.1.f\", &v); v * 2 + k })(b); let a = (|v: i32| { ev(\"0.1.f\", &v); v + k })(a);"
        r = "{ %s %s }" % (body, "Some((a, b))" if is_try else "(a, b)")
        progs.append(Prog("owning/%s" % mac, "let x = %s;%s" % (r, fmt), "let x = %s;%s" % (d, fmt), fp.offset_rows(), "Full", meta={"macro": mac, "dsl": d, "ref": r}))
    for ds in ((1, 1), (2, 1), (2, 2), (1, 2, 3)):
        for mac in ("join_spawn", "try_join_spawn", "spawn", "try_spawn"):
            progs.append(make(mac, "lazy_branches(true)", None, "Proj", ds, rich=False, tag="explicit/"))
    return progs


def handler_programs(tier):
    """C13 under options: every handler kind behind each option that changes how a step is joined or transposed; in the async
    try macros transpose_results(true) (the only way to carry Option/Result-valued futures) switches to the sequential
    semantics: the step is joined with a plain join, transposed by the macro, and `map` must still see the unwrapped values"""
    progs = []
    for ds in list(fp.profiles(3, 2)) + [(3,)]:
        n = len(ds)
        variants = []
        if n == 1:
            variants += [(m, "transpose_results(true)", None, "Proj", False) for m in ("try_join_async", "try_join_async_spawn", "try_async_spawn", "try_join", "try_join_spawn")]
            variants += [(m, "lazy_branches(false)", None, "TryAsync" if m == "try_join_async" else "Proj", None) for m in ("join", "try_join", "join_async", "try_join_async")]
        else:
            variants += [
                ("try_join_async", "transpose_results(true) custom_joiner(jma!)", {"when": "before"}, "Proj", False),
                ("try_join_async_spawn", "custom_joiner(jma!) transpose_results(true)", {"when": "before"}, "Proj", False),
                ("join", "lazy_branches(true) custom_joiner(jl!)", {"when": "before", "reverse": True}, "Full", None),
                ("try_join", "custom_joiner(jl!) lazy_branches(true)", {"when": "before", "reverse": True}, "Full", None),
                ("try_join", "custom_joiner(jm!) transpose_results(true)", {"when": "before"}, "Full", None),
                ("join_spawn", "custom_joiner(jm!)", {"when": "before"}, "Proj", None),
                ("try_join_spawn", "custom_joiner(jm!)", {"when": "before"}, "Proj", None),
                ("join_async", "lazy_branches(true) custom_joiner(jla!)", {"when": "before"}, "Proj", None),
                ("try_join_async", "custom_joiner(jlta!) lazy_branches(true)", {"when": "before"}, "TryAsync", None),
                ("join_async_spawn", "custom_joiner(jma!)", {"when": "before"}, "Proj", None),
            ]
        for mac, opts, jn, cmp, anyof in variants:
            is_try = "try" in mac
            for hk in (("map", "and_then") if is_try else ("then",)):
                for hpos in sorted({0, n}):
                    progs.append(make(mac, opts, jn, cmp, ds, rich=False, tag="h/%s@%d/" % (hk, hpos), anyof=anyof, handler=hk, hpos=hpos))
    return progs


def programs(tier):
    progs = []
    for ds in fp.profiles(3, 3):
        n = len(ds)
        if n < 2:
            # single branch: the joiner must never be called
            variants = [("join", "custom_joiner(jm!)", {"when": "before"}, "Full"), ("try_join", "custom_joiner(jm!)", {"when": "before"}, "Full")]
        else:
            variants = [
                ("join", "custom_joiner(jm!)", {"when": "before"}, "Full"),
                ("try_join", "custom_joiner(jm!)", {"when": "before"}, "Full"),
                ("join_spawn", "custom_joiner(jm!)", {"when": "before"}, "Proj"),
                ("try_join_spawn", "custom_joiner(jm!)", {"when": "before"}, "Proj"),
                ("join_async", "custom_joiner(jma!)", {"when": "before"}, "Proj"),
                ("try_join_async", "custom_joiner(jmta!)", {"when": "before"}, "TryAsync"),
                ("join_async_spawn", "custom_joiner(jma!)", {"when": "before"}, "Proj"),
                ("join_async", "lazy_branches(true) custom_joiner(jla!)", {"when": "before"}, "Proj"),
                ("try_join_async", "custom_joiner(jlta!) lazy_branches(true)", {"when": "before"}, "TryAsync"),
                ("join", "lazy_branches(true) custom_joiner(jl!)", {"when": "before", "reverse": True}, "Full"),
                ("try_join", "custom_joiner(jl!) lazy_branches(true)", {"when": "before", "reverse": True}, "Full"),
            ]
            if constant_arity(ds):
                variants.append(("join", "custom_joiner(jf%d)" % n, {"when": "after"}, "Full"))
                variants.append(("try_join", "custom_joiner(jf%d)" % n, {"when": "after"}, "Full"))
                variants.append(("join_spawn", "custom_joiner(jf%d)" % n, {"when": "after"}, "Proj"))
        for mac, opts, jn, cmp in variants:
            if "async" in mac and tier == "quick" and sum(ds) > 6:
                continue
            progs.append(make(mac, opts, jn, cmp, ds, rich=(n <= 2 and cmp == "Full")))
    progs += closure_value_programs() + owning_closure_programs()
    return progs


# ---------------------------------------------------------------------------------------------
# transpose_results(false): the joiner's output is the already transposed Result in every step
# ---------------------------------------------------------------------------------------------
TRANSPOSE_PRE = r'''
// try-collecting joiner: Ok(tuple of unwrapped values) or the first Err; input slot 40+k injects a failure of the joiner itself in its k-th call
macro_rules! jt {
    ($($x:expr),*) => {{
        let k = JT_CALLS.fetch_add(1, std::sync::atomic::Ordering::SeqCst);
        ev("j.x.a", &[$(stringify!($x)),*].len());
        let r = (|| Ok::<_, i32>(($($x?),*)))();
        if act(40 + k) == 1 { Err(7000 + k as i32) } else { r }
    }}
}
pub static JT_CALLS: std::sync::atomic::AtomicUsize = std::sync::atomic::AtomicUsize::new(0);
// joiner that leaves every branch value wrapped: the step result is Ok(tuple of the branches' Results)
macro_rules! jk { ($($x:expr),*) => {{ ev("j.x.a", &[$(stringify!($x)),*].len()); Ok::<_, i32>(($($x),*)) }} }
'''


def transpose_programs():
    """two and three branches of equal depth 2/3 in try_join!/try_join_spawn! with transpose_results(false); between steps the
    values are the unwrapped ones (DESIGN §3.5), so step k>=1 continues with `-> |v: i32| ..`"""
    progs = []
    for n in (2, 3):
        for depth in (2, 3):
            for mac in ("try_join",):
                brs = []
                ref_steps = []
                for b in range(n):
                    s = "st_r(%d, %d, 100 * %d)" % (fp.slot(b, 0), fp.payload(b, 0), b)
                    for k in range(1, depth):
                        s += " ~-> |v: i32| { ev(\"%d.%d.f\", &v); st_r(%d, %d, v + 1) }" % (b, k, fp.slot(b, k), fp.payload(b, k))
                    brs.append(s)
                d = "%s! { transpose_results(false) custom_joiner(jt!) %s }" % (mac, ", ".join(brs))
                # reference, written out: per step evaluate all branches, joiner event, joiner failure, first Err wins
                lines = ["JT_CALLS.store(0, std::sync::atomic::Ordering::SeqCst);"]
                for k in range(depth):
                    lines.append("ev(\"j.x.a\", &%dusize);" % n)
                    # the joiner `jt!` evaluates its arguments left to right inside `(|| Ok((a?, b?)))()`: the first Err
                    # short-circuits (later branches of the step are not evaluated); an injected joiner failure overrides
                    lines.append("let __r: Result<(%s), i32> = (|| {" % ", ".join("i32" for _ in range(n)) + ("" if n > 1 else ""))
                    for b in range(n):
                        if k == 0:
                            lines.append("    let v%d = st_r(%d, %d, 100 * %d)?;" % (b, fp.slot(b, 0), fp.payload(b, 0), b))
                        else:
                            lines.append("    let v%d = (|v: i32| { ev(\"%d.%d.f\", &v); st_r(%d, %d, v + 1) })(v%d)?;" % (b, b, k, fp.slot(b, k), fp.payload(b, k), b))
                    lines.append("    Ok((%s))" % ", ".join("v%d" % b for b in range(n)))
                    lines.append("})();")
                    lines.append("if act(%d) == 1 { break 'r Err(%d); }" % (40 + k, 7000 + k))
                    lines.append("let (%s) = match __r { Ok(t) => t, Err(e) => break 'r Err(e) };" % ", ".join("v%d" % b for b in range(n)))
                lines.append("Ok::<_, i32>((%s))" % ", ".join("v%d" % b for b in range(n)))
                # the joiner event is logged BEFORE its arguments are evaluated in the macro joiner; the reference logs it
                # before the step's chains as well (step 0: after nothing) — order is compared per key only (Proj)
                r = "'r: {\n    %s\n}" % "\n    ".join(lines)
                rb = "let x = %s;\nformat!(\"{:?}\", x)" % r
                mb = "JT_CALLS.store(0, std::sync::atomic::Ordering::SeqCst);\nlet x = %s;\nformat!(\"{:?}\", x)" % d
                slots = [fp.slot(b, k) for b in range(n) for k in range(depth)] + [40 + k for k in range(depth)]
                progs.append(Prog("%s/transpose/%d/%d" % (mac, n, depth), rb, mb, [[0]], "Proj", meta={"macro": mac, "dsl": d, "ref": r}, sub=slots if len(slots) <= 11 else slots[:5] + slots[-depth:]))
    progs += transpose_single_programs()
    return progs


def transpose_single_programs():
    """steps with ONE active branch under transpose_results(false): nothing is joined, the branch's own Result is the step result
    and the next step continues with its unwrapped payload (a) single branch of depth 2/3, with and without further options,
    (b) depths (1, 3) behind a joiner that leaves the branch values wrapped: step 0 is joined once, steps 1 and 2 are not"""
    progs = []
    fmt = '\nformat!("{:?}", x)'
    for mac in ("try_join", "try_join_spawn"):
        for depth in (2, 3):
            for oi, opts in enumerate(("transpose_results(false)", "lazy_branches(false) transpose_results(false)", "transpose_results(false) custom_joiner(jk!)")):
                s = "st_r(%d, %d, 5)" % (fp.slot(0, 0), fp.payload(0, 0))
                lines = ["let v = match st_r(%d, %d, 5) { Ok(v) => v, Err(e) => break 'r Err(e) };" % (fp.slot(0, 0), fp.payload(0, 0))]
                for k in range(1, depth):
                    f = "|v: i32| { ev(\"0.%d.f\", &v); st_r(%d, %d, v + 1) }" % (k, fp.slot(0, k), fp.payload(0, k))
                    s += " ~-> " + f
                    lines.append("let v = match (%s)(v) { Ok(v) => v, Err(e) => break 'r Err(e) };" % f)
                lines.append("Ok::<i32, i32>(v)")
                d = "%s! { %s %s }" % (mac, opts, s)
                r = "'r: {\n    %s\n}" % "\n    ".join(lines)
                slots = [fp.slot(0, k) for k in range(depth)]
                progs.append(Prog("%s/transpose1/%d/%d" % (mac, depth, oi), "let x = %s;%s" % (r, fmt), "let x = %s;%s" % (d, fmt), [[0]], "Proj", meta={"macro": mac, "dsl": d, "ref": r}, sub=slots))
        # (b) depths (1, 3); the thread-spawning joiner receives JoinHandles, so only the sequential macro
        if mac != "try_join":
            continue
        f1 = "|v: i32| { ev(\"1.1.f\", &v); st_r(%d, %d, v + 1) }" % (fp.slot(1, 1), fp.payload(1, 1))
        f2 = "|v: i32| { ev(\"1.2.f\", &v); st_r(%d, %d, v + 1) }" % (fp.slot(1, 2), fp.payload(1, 2))
        a0 = "st_r(%d, %d, 0)" % (fp.slot(0, 0), fp.payload(0, 0))
        b0 = "st_r(%d, %d, 100)" % (fp.slot(1, 0), fp.payload(1, 0))
        d = "%s! { custom_joiner(jk!) transpose_results(false) %s, %s ~=> %s ~-> %s }" % (mac, a0, b0, f1, f2)
        r = """'r: {
    let a = %s;
    let b = %s;
    ev("j.x.a", &2usize);
    let v = match b.and_then(%s) { Ok(v) => v, Err(e) => break 'r Err(e) };
    let v = match (%s)(v) { Ok(v) => v, Err(e) => break 'r Err(e) };
    match a { Ok(a) => Ok::<(i32, i32), i32>((a, v)), Err(e) => Err(e) }
}""" % (a0, b0, f1, f2)
        slots = [fp.slot(0, 0), fp.slot(1, 0), fp.slot(1, 1), fp.slot(1, 2)]
        progs.append(Prog("%s/transpose13" % mac, "let x = %s;%s" % (r, fmt), "let x = %s;%s" % (d, fmt), [[0]], "Proj", meta={"macro": mac, "dsl": d, "ref": r}, sub=slots))
    return progs


# ---------------------------------------------------------------------------------------------
# futures_crate_path: a crate in which NO dependency is called `futures`
# ---------------------------------------------------------------------------------------------
FUT03_DEPS = """join = {{ path = "{repo}/join" }}
vrt = {{ path = "{verif}/rt/vrt" }}
fut03 = {{ package = "futures", version = "0.3" }}
tokio = {{ version = "1", features = ["rt", "rt-multi-thread", "time", "macros"] }}
"""
FUT03_HEADER = """use fut03::future::ready;
fn trt() -> tokio::runtime::Runtime { tokio::runtime::Builder::new_current_thread().build().unwrap() }
"""


def fut03_programs(tier):
    progs = []
    for ds in fp.profiles(3, 2):
        for mac in ("join_async", "try_join_async", "join_async_spawn", "try_join_async_spawn"):
            is_try = mac.startswith("try")
            p = fp.build(mac, ds, flavour="Res" if is_try else None, handler=("and_then" if is_try else "then") if len(ds) == 2 else None)
            p.options = ["futures_crate_path(::fut03)"]
            d = dsl.program_dsl(p)
            r = dsl.program_ref(p, anyof=is_try, fc="fut03")
            fmt = '\nformat!("{:?}", x)'
            rb = "fut03::executor::block_on(%s)" % r if is_try else "let x = fut03::executor::block_on(%s);%s" % (r, fmt)
            mb = ("let x = trt().block_on(%s);%s" if p.is_spawn else "let x = fut03::executor::block_on(%s);%s") % (d, fmt)
            sub = fp.fail_slots(ds) if is_try else ()
            progs.append(Prog("%s/fut03/%s" % (mac, fp.pname(ds)), rb, mb, [[0]] if is_try else fp.offset_rows(), "TryAsync" if is_try else "ProjSteps", meta={"macro": mac, "dsl": d, "ref": r}, sub=sub))
    return progs


def transpose_on_non_try_programs():
    """`transpose_results(..)` is an option of the TRY macros' step handling; written on a non-try macro (alone or next to
    `lazy_branches`) it is accepted and changes nothing: Option- / Result- / int-valued branches, one to three steps"""
    from . import dsl
    progs = []
    for mac in ("join", "join_spawn", "join_async", "join_async_spawn"):
        is_async = "async" in mac
        for opts in ("transpose_results(true)", "transpose_results(false)"):
            for ds in ((1, 1), (2, 2), (1, 2), (2, 1, 3)):
                for wrap in (False, True):
                    if wrap and is_async:
                        continue
                    p = fp.build(mac, ds, wrap=wrap, init_ev=True)
                    q = fp.build(mac, ds, wrap=wrap, init_ev=True)
                    p.options = [opts]
                    rb, _, _, r = fp.bodies(q)
                    _, mb, d, _ = fp.bodies(p)
                    progs.append(Prog("transpose-non-try/%s/%s/%s/%d" % (mac, opts, fp.pname(ds), wrap), rb, mb, fp.offset_rows(), "Full" if mac == "join" else "ProjSteps", meta={"macro": mac, "dsl": d, "ref": r}))
    return progs


LAZY_FALSE_PRE = """fn job_a() -> i32 { ev0("0.0.j"); 1 }
fn job_b() -> i32 { ev0("1.0.j"); 20 }
fn tjob_a() -> Option<i32> { ev0("0.0.j"); Some(1) }
fn tjob_b() -> Option<i32> { ev0("1.0.j"); Some(20) }
"""


def lazy_false_callable_programs():
    """explicit `lazy_branches(false)` on the thread-spawning macros: the branch expression itself is what the branch thread runs, so a
    branch that is a callable (fn item) is CALLED by its thread, once, and the step value is what it returns"""
    progs = []
    for mac in ("join_spawn", "spawn", "try_join_spawn", "try_spawn"):
        is_try = mac.startswith("try")
        a, b = ("tjob_a", "tjob_b") if is_try else ("job_a", "job_b")
        for steps in (1, 2):
            t = (" ~|> |v: i32| { ev(\"%d.1.f\", &v); v + 1 }" if is_try else " ~-> |v: i32| { ev(\"%d.1.f\", &v); v + 1 }") if steps == 2 else ""
            d = "%s! { lazy_branches(false) %s%s, %s }" % (mac, a, t % 0 if t else "", b)
            if is_try:
                r = "{ let a = %s(); let b = %s(); %s match (a, b) { (Some(a), Some(b)) => Some((a, b)), _ => None } }" % (a, b, "let a = a.map(|v: i32| { ev(\"0.1.f\", &v); v + 1 });" if steps == 2 else "")
            else:
                r = "{ let a = %s(); let b = %s(); %s (a, b) }" % (a, b, "let a = (|v: i32| { ev(\"0.1.f\", &v); v + 1 })(a);" if steps == 2 else "")
            fm = '\nformat!("{:?}", x)'
            progs.append(Prog("lazyfalse/%s/%d" % (mac, steps), "let x = %s;%s" % (r, fm), "let x = %s;%s" % (d, fm), [[0]], "ProjSteps", pre=LAZY_FALSE_PRE, meta={"macro": mac, "dsl": d, "ref": r}))
    return progs
