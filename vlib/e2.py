"""E2 — compile-and-run differential explorer.

A *family* is a list of Prog objects. Each becomes a module with `r()` (reference semantics, straight
line Rust) and `m()` (the real macro invocation), compiled by rustc against $VERIF_REPO/join, and run on
every row of its input table by vrt::drive. Build errors are attributed to programs by line number:
an error inside an `m()` body (or its expansion) while `r()` compiles is a violation ("a well-typed
program expands to code that compiles"); an error anywhere else is a machinery error.
"""
import json
import os
import shutil
import subprocess
import time
from concurrent.futures import ThreadPoolExecutor

from .common import NCPU, REPO, TARGET, VERIF, WORK, MachineryError, cargo_env, write_if_changed


class Prog:
    __slots__ = ("id", "ref", "mac", "rows", "cmp", "pre", "meta", "sub")

    def __init__(self, id, ref, mac, rows, cmp="Full", pre="", meta=None, sub=()):
        self.sub = list(sub)  # input slots over whose subsets (set to 1) every row is additionally expanded
        self.id = id
        self.ref = ref  # body of fn r() -> String
        self.mac = mac  # body of fn m() -> String
        self.rows = rows
        self.cmp = cmp
        self.pre = pre
        self.meta = meta or {}


HEADER = """#![allow(warnings)]
#![recursion_limit = "1024"]
use vrt::*;
use join::*;
"""

DEPS = """join = {{ path = "{repo}/join" }}
vrt = {{ path = "{verif}/rt/vrt" }}
futures = "0.3"
tokio = {{ version = "1", features = ["rt", "rt-multi-thread", "time", "macros"] }}
"""


def render_shard(progs, extra_header=""):
    """returns (text, ranges) where ranges = [(first_line, last_line, prog_index, part)] (1-based)"""
    lines = (HEADER + extra_header).split("\n")
    if lines[-1] == "":
        lines.pop()
    ranges = []

    def emit(text, idx, part):
        start = len(lines) + 1
        for l in text.split("\n"):
            lines.append(l)
        ranges.append((start, len(lines), idx, part))

    for i, p in enumerate(progs):
        lines.append("pub mod p%d {" % i)
        lines.append("use super::*;")
        if p.pre:
            emit(p.pre, i, "pre")
        emit("pub fn r() -> String {\n%s\n}" % p.ref, i, "r")
        emit("pub fn m() -> String {\n%s\n}" % p.mac, i, "m")
        rows = ", ".join("&[%s]" % ", ".join(str(x) for x in r) for r in p.rows)
        lines.append("pub static ROWS: &[&[i64]] = &[%s];" % rows)
        lines.append("}")
    lines.append("fn main() {")
    lines.append("    vrt::drive(&[")
    for i, p in enumerate(progs):
        lines.append(
            "        Prog { id: %s, r: p%d::r, m: p%d::m, rows: p%d::ROWS, sub: &[%s], cmp: Cmp::%s },"
            % (json.dumps(p.id), i, i, i, ", ".join(str(x) for x in p.sub), p.cmp)
        )
    lines.append("    ]);")
    lines.append("}")
    return "\n".join(lines) + "\n", ranges


class FamilyResult:
    def __init__(self):
        self.programs = 0
        self.rows = 0
        self.nontrivial = 0
        self.mismatches = []  # (prog, mismatch dict)
        self.compile_violations = []  # (prog, message)
        self.results = {}  # id -> result dict
        self.build_s = 0.0
        self.run_s = 0.0
        self.rebuilds = 0
        self.name = ""
        self.extra_header = ""
        self.deps_override = None


def _attribute(msg, ranges_by_pkg, pkg):
    """find (prog_index, part) for a rustc diagnostic; None if it cannot be attributed"""
    spans = msg.get("spans") or []
    cands = []

    def walk(sp):
        if sp.get("file_name", "").endswith("main.rs"):
            cands.append((sp.get("is_primary", False), sp["line_start"]))
        exp = sp.get("expansion")
        if exp and exp.get("span"):
            walk(exp["span"])

    for sp in spans:
        walk(sp)
    for ch in msg.get("children") or []:
        for sp in ch.get("spans") or []:
            walk(sp)
    cands.sort(key=lambda c: not c[0])
    for _, line in cands:
        for a, b, idx, part in ranges_by_pkg[pkg]:
            if a <= line <= b:
                return idx, part
    return None


def run_family(name, progs, shards=None, extra_header="", extra_deps="", timeout=3000, keep_going=True, deps_override=None, header_override=None):
    """Build and run a family. Returns FamilyResult. Raises MachineryError on harness problems."""
    res = FamilyResult()
    res.name, res.extra_header, res.deps_override = name, extra_header, deps_override
    if not progs:
        raise MachineryError("family %s is empty" % name)
    # rustc is single-threaded per crate and slows down superlinearly on very large crates: at most ~600 programs per shard crate
    shards = shards or max(NCPU, (len(progs) + 599) // 600)
    shards = max(1, min(shards, len(progs)))
    fam_dir = os.path.join(WORK, "e2", name)
    os.makedirs(fam_dir, exist_ok=True)
    ids = set()
    for p in progs:
        if p.id in ids:
            raise MachineryError("duplicate program id %s in family %s" % (p.id, name))
        ids.add(p.id)
    # deterministic round-robin partition
    parts = [[] for _ in range(shards)]
    for i, p in enumerate(progs):
        parts[i % shards].append(p)
    members = []
    for s in range(shards):
        members.append("s%d" % s)
    # remove stale shard dirs
    for d in os.listdir(fam_dir):
        if d.startswith("s") and d[1:].isdigit() and d not in members:
            shutil.rmtree(os.path.join(fam_dir, d), ignore_errors=True)
    write_if_changed(
        os.path.join(fam_dir, "Cargo.toml"),
        "[workspace]\nresolver = \"2\"\nmembers = [%s]\n\n[profile.dev]\ndebug = 0\nincremental = false\nopt-level = 0\npanic = \"unwind\"\n"
        % ", ".join(json.dumps(m) for m in members),
    )
    lock_src = os.path.join(REPO, "Cargo.lock")
    lock_dst = os.path.join(fam_dir, "Cargo.lock")
    if not os.path.exists(lock_dst):
        shutil.copyfile(lock_src, lock_dst)
    deps = (deps_override or DEPS).format(repo=REPO, verif=VERIF) + extra_deps
    target = os.path.join(TARGET, "e2")
    excluded = set()
    t0 = time.time()
    for attempt in range(4):
        ranges_by_pkg = {}
        progs_by_pkg = {}
        for s in range(shards):
            pkg = "e2_%s_s%d" % (name, s)
            sp = [p for p in parts[s] if p.id not in excluded]
            progs_by_pkg[pkg] = sp
            text, ranges = render_shard(sp, extra_header)
            ranges_by_pkg[pkg] = ranges
            write_if_changed(
                os.path.join(fam_dir, "s%d" % s, "Cargo.toml"),
                "[package]\nname = %s\nversion = \"0.1.0\"\nedition = \"2018\"\n\n[[bin]]\nname = %s\npath = \"src/main.rs\"\n\n[dependencies]\n%s"
                % (json.dumps(pkg), json.dumps(pkg), deps),
            )
            write_if_changed(os.path.join(fam_dir, "s%d" % s, "src", "main.rs"), text)
        proc = subprocess.run(
            ["cargo", "build", "--offline", "--message-format=json", "-q", "-j", str(NCPU)],
            cwd=fam_dir,
            env=cargo_env({"CARGO_TARGET_DIR": target}),
            stdout=subprocess.PIPE,
            stderr=subprocess.PIPE,
            text=True,
            timeout=timeout,
        )
        errors = []
        other_errors = []
        for line in proc.stdout.splitlines():
            if not line.startswith("{"):
                continue
            try:
                m = json.loads(line)
            except ValueError:
                continue
            if m.get("reason") != "compiler-message":
                continue
            msg = m["message"]
            if msg.get("level") not in ("error", "error: internal compiler error"):
                continue
            pkg = m.get("target", {}).get("name", "")
            if pkg not in ranges_by_pkg:
                other_errors.append((pkg, msg.get("rendered", msg.get("message", ""))[:2000]))
                continue
            if msg.get("message", "").startswith("aborting due to"):
                continue
            at = _attribute(msg, ranges_by_pkg, pkg)
            errors.append((pkg, at, msg.get("rendered") or msg.get("message", "")))
        if proc.returncode == 0:
            break
        if other_errors:
            raise MachineryError(
                "build of a dependency failed in family %s (package %s):\n%s"
                % (name, other_errors[0][0], other_errors[0][1])
            )
        if not errors:
            raise MachineryError("cargo build failed for family %s without attributable diagnostics:\n%s" % (name, proc.stderr[-3000:]))
        bad = {}
        for pkg, at, rendered in errors:
            if at is None:
                raise MachineryError("unattributable compile error in %s:\n%s" % (pkg, rendered[:3000]))
            idx, part = at
            p = progs_by_pkg[pkg][idx]
            if part != "m":
                raise MachineryError(
                    "compile error in the %s part of program %s (family %s) — the reference/harness is wrong, not join:\n%s\n--- program:\n%s"
                    % (part, p.id, name, rendered[:3000], p.ref if part == "r" else p.pre)
                )
            bad.setdefault(p.id, (p, rendered))
        for pid, (p, rendered) in bad.items():
            res.compile_violations.append((p, rendered[:3000]))
            excluded.add(pid)
        res.rebuilds += 1
        if not keep_going or len(excluded) > 400:
            # enough evidence; do not run stale binaries
            res.build_s = time.time() - t0
            res.programs = len(progs)
            return res
    else:
        raise MachineryError("family %s still does not build after removing %d programs" % (name, len(excluded)))
    res.build_s = time.time() - t0
    # run
    t1 = time.time()

    def run_shard(s):
        pkg = "e2_%s_s%d" % (name, s)
        if not progs_by_pkg[pkg]:
            return ""
        exe = os.path.join(target, "debug", pkg)
        p = subprocess.run([exe], stdout=subprocess.PIPE, stderr=subprocess.PIPE, text=True, timeout=timeout, env=cargo_env())
        if p.returncode != 0:
            raise MachineryError("shard %s exited with %d:\n%s" % (pkg, p.returncode, p.stderr[-3000:]))
        return p.stdout

    with ThreadPoolExecutor(max_workers=NCPU) as ex:
        outs = list(ex.map(run_shard, range(shards)))
    res.run_s = time.time() - t1
    by_id = {p.id: p for p in progs}
    for out in outs:
        for line in out.splitlines():
            if not line.startswith("{"):
                continue
            d = json.loads(line)
            res.results[d["id"]] = d
            res.rows += d["rows"]
            if d["traced"] and d["outcomes"] >= 2:
                res.nontrivial += 1
            if d["nmism"]:
                for mm in d["mism"]:
                    res.mismatches.append((by_id[d["id"]], mm, d["nmism"]))
    res.programs = len(progs)
    missing = [p.id for p in progs if p.id not in res.results and p.id not in excluded]
    if missing:
        raise MachineryError("no result for %d programs of family %s, e.g. %s" % (len(missing), name, missing[:3]))
    return res
