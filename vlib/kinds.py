"""Typed transition system over value kinds (DESIGN §2.1, Appendix A).

A state is a value kind; a transition is one row of the typed operator table: (operator spelling,
operand texts, result kind). The table only decides which chains are well typed; the oracle is the
reference rendering R (the documented method call, textually).
"""

INT = ("Int",)
USIZE = ("Usize",)
BOOL = ("Bool",)
UNIT = ("Unit",)


def Opt(k):
    return ("Opt", k)


def Res(k):
    return ("Res", k)


def Iter(k):
    return ("Iter", k)


def Vec(k):
    return ("Vec", k)


def Tup(a, b):
    return ("Tup", a, b)


def Ref(k):
    return ("Ref", k)


def Fut(k):
    return ("Fut", k)


def Str(k):
    return ("Str", k)


def depth(k):
    if len(k) == 1:
        return 0
    return 1 + max(depth(x) for x in k[1:])


def nameable(k):
    if k[0] in ("Iter", "Fut", "Str"):
        return False
    return all(nameable(x) for x in k[1:])


def T(k):
    """Rust type of a nameable kind"""
    h = k[0]
    if h == "Int":
        return "i32"
    if h == "Usize":
        return "usize"
    if h == "Bool":
        return "bool"
    if h == "Unit":
        return "()"
    if h == "Opt":
        return "Option<%s>" % T(k[1])
    if h == "Res":
        return "Result<%s, i32>" % T(k[1])
    if h == "Vec":
        return "Vec<%s>" % T(k[1])
    if h == "Tup":
        return "(%s, %s)" % (T(k[1]), T(k[2]))
    if h == "Ref":
        return "&%s" % T(k[1])
    raise ValueError("unnameable kind %r" % (k,))


def short(k):
    h = k[0]
    if len(k) == 1:
        return h
    return "%s(%s)" % (h, ",".join(short(x) for x in k[1:]))


# ---------------------------------------------------------------------------------------------
# operator semantics as documented (README): how `prev OP operands` reads as a method chain
# ---------------------------------------------------------------------------------------------
METHOD = {
    "|>": "map",
    "=>": "and_then",
    "?>": "filter",
    "<|": "or",
    "<=": "or_else",
    "!>": "map_err",
    ">@>": "chain",
    "?|>@": "find_map",
    "?|>": "filter_map",
    "?&!>": "partition",
    "?@": "find",
    ">^>": "zip",
}


def ref_apply(prev, op, operands, is_async=False):
    """The documented meaning of `prev OP operands` as Rust text."""
    if op in METHOD:
        return "%s.%s(%s)" % (prev, METHOD[op], operands[0])
    if op in ("..", ">."):
        return "%s.%s" % (prev, operands[0])
    if op == "->":
        return "(%s)(%s)" % (operands[0], prev)
    if op == "=>[]":
        return "%s.collect::<%s>()" % (prev, operands[0]) if operands else "%s.collect()" % prev
    if op == "|n>":
        return "%s.enumerate()" % prev
    if op == "^^>":
        return "%s.flatten()" % prev
    if op == "^@":
        return "%s.fold(%s, %s)" % (prev, operands[0], operands[1])
    if op == "?^@":
        return "%s.try_fold(%s, %s)" % (prev, operands[0], operands[1])
    if op == "<->":
        return "%s.unzip::<%s>()" % (prev, ", ".join(operands)) if operands else "%s.unzip()" % prev
    if op == "??":
        if is_async:
            return "%s.inspect(%s)" % (prev, operands[0])
        return "{ let __x = %s; (%s)(&__x); __x }" % (prev, operands[0])
    raise ValueError(op)


def dsl_apply(op, operands):
    if not operands:
        return " %s" % op
    return " %s %s" % (op, ", ".join(operands))


class Row:
    __slots__ = ("label", "op", "operands", "out", "pinned")

    def __init__(self, label, op, operands, out, pinned=False):
        self.label = label
        self.op = op
        self.operands = operands
        self.out = out
        self.pinned = pinned  # output type must be pinned by context: only as last item


def evs(site):
    return 'ev("%s", &v)' % site


MAXDEPTH = 3


def sync_rows(k, site):
    """All table rows applicable to kind k (sync macros). `site` tags the callback events."""
    rows = []
    h = k[0]
    S = site

    def add(label, op, operands, out, pinned=False):
        if depth(out) <= MAXDEPTH:
            rows.append(Row(label, op, operands, out, pinned))

    if h in ("Opt", "Res"):
        K = k[1]
        if nameable(K):
            t = T(K)
            tw = T(k)
            some = "Some" if h == "Opt" else "Ok::<%s, i32>" % t
            none = "None" if h == "Opt" else "Err(5)"
            add("map", "|>", ["|v: %s| { %s; v.bump() }" % (t, evs(S))], k)
            add("map_wrap", "|>", ["|v: %s| { %s; %s(v) }" % (t, evs(S), some)], (h, k))
            add(
                "and_then",
                "=>",
                ["|v: %s| { %s; if v.p() { %s(v.bump()) } else { %s } }" % (t, evs(S), some, none)],
                k,
            )
            add("inspect", "??", ["|v: &%s| { %s; }" % (tw, evs(S))], k)
            add("then_some", "->", ["Some"], Opt(k))
            add("then_closure", "->", ["|v: %s| { %s; v }" % (tw, evs(S))], k)
            add("dot_into_iter", "..", ["into_iter()"], Iter(K))
            add("or", "<|", ['lg("%s", <%s as D>::d())' % (S, tw)], k)
            if h == "Opt":
                add("filter", "?>", ["|v: &%s| { %s; v.p() }" % (t, evs(S))], k)
                add("or_else", "<=", ['|| { ev0("%s"); <%s as D>::d() }' % (S, tw)], k)
                add("dot_ok_or", "..", ["ok_or(9)"], Res(K))
                add("dot2_ok_or", ">.", ["ok_or(9)"], Res(K))
                if K[0] == "Opt":
                    add("flatten", "^^>", [], K)
                add("zip", ">^>", ['lg("%s", Some(7i32))' % S], Opt(Tup(K, INT)))
                if K[0] == "Tup":
                    add("unzip", "<->", [], Tup(Opt(K[1]), Opt(K[2])))
            else:
                add(
                    "or_else",
                    "<=",
                    ["|e: i32| { ev(\"%s\", &e); if e.p() { Ok::<%s, i32>(<%s as D>::d()) } else { Err(e + 1) } }" % (S, t, t)],
                    k,
                )
                add("map_err", "!>", ["|e: i32| { ev(\"%s\", &e); e + 3 }" % S], k)
                add("dot_ok", "..", ["ok()"], Opt(K))
                add("dot2_ok", ">.", ["ok()"], Opt(K))
    elif h == "Iter":
        K = k[1]
        t = T(K)
        add("map", "|>", ["|v: %s| { %s; v.bump() }" % (t, evs(S))], k)
        add("filter", "?>", ["|v: &%s| { %s; v.p() }" % (t, evs(S))], k)
        add("filter_map", "?|>", ["|v: %s| { %s; if v.p() { Some(v.bump()) } else { None } }" % (t, evs(S))], k)
        add("chain", ">@>", ['lg("%s", <Vec<%s> as D>::d())' % (S, t)], k)
        add("dot_skip", "..", ["skip(1)"], k)
        add("inspect", "??", ['|_| { ev0("%s"); }' % S], k)
        add("find", "?@", ["|v: &%s| { %s; v.p() }" % (t, evs(S))], Opt(K))
        add("find_map", "?|>@", ["|v: %s| { %s; if v.p() { Some(v.bump()) } else { None } }" % (t, evs(S))], Opt(K))
        add("dot2_last", ">.", ["last()"], Opt(K))
        add("enumerate", "|n>", [], Iter(Tup(USIZE, K)))
        add("zip", ">^>", ['lg("%s", vec![7i32, 8, 9])' % S], Iter(Tup(K, INT)))
        if K[0] in ("Opt", "Vec"):
            add("flatten", "^^>", [], Iter(K[1]))
        add("fold", "^@", ["0i32", "|acc: i32, v: %s| { %s; acc.wrapping_mul(3).wrapping_add(v.w()) }" % (t, evs(S))], INT)
        add(
            "try_fold",
            "?^@",
            ["0i32", "|acc: i32, v: %s| { %s; if v.p() { Some(acc.wrapping_mul(3).wrapping_add(v.w())) } else { None } }" % (t, evs(S))],
            Opt(INT),
        )
        add("dot_count", "..", ["count()"], USIZE)
        add("collect_t", "=>[]", ["Vec<%s>" % t], Vec(K))
        add("collect", "=>[]", [], Vec(K), pinned=True)
        add("then_to_vec", "->", ["to_vec"], Vec(K))
        add("partition", "?&!>", ["|v: &%s| { %s; v.p() }" % (t, evs(S))], Tup(Vec(K), Vec(K)), pinned=True)
        if K[0] == "Tup":
            a, b = T(K[1]), T(K[2])
            add("unzip_t", "<->", [a, b, "Vec<%s>" % a, "Vec<%s>" % b], Tup(Vec(K[1]), Vec(K[2])))
            add("unzip", "<->", [], Tup(Vec(K[1]), Vec(K[2])), pinned=True)
    elif h == "Vec":
        K = k[1]
        tw = T(k)
        add("dot_into_iter", "..", ["into_iter()"], Iter(K))
        add("dot_len", "..", ["len()"], USIZE)
        add("inspect", "??", ["|v: &%s| { %s; }" % (tw, evs(S))], k)
        add("then_some", "->", ["Some"], Opt(k))
    elif h == "Ref":
        K = k[1]
        t = T(k)
        add("then_pred", "->", ["|v: %s| { %s; v.p() }" % (t, evs(S))], BOOL)
        add("dot_p", "..", ["p()"], BOOL)
        add("then_unit", "->", ["|v: %s| { %s; }" % (t, evs(S))], UNIT)
        if nameable(K):
            add("dot_clone", "..", ["clone()"], K)
    else:
        # scalars and tuples
        t = T(k)
        add("then_closure", "->", ["|v: %s| { %s; v.bump() }" % (t, evs(S))], k)
        add("then_some", "->", ["Some"], Opt(k))
        add("then_ok", "->", ["Ok::<%s, i32>" % t], Res(k))
        add("inspect", "??", ["|v: &%s| { %s; }" % (t, evs(S))], k)
        if h == "Int":
            add("dot_checked_add", "..", ["checked_add(1)"], Opt(INT))
        if h == "Tup":
            add("dot_0", "..", ["0"], k[1])
    return rows


# start kinds: (kind, initial operand text, rows)
SYNC_STARTS = [
    (Opt(INT), "opt(0)", [[2], [3], [0]]),
    (Res(INT), "res(0)", [[2], [3], [-7]]),
    (Iter(INT), "vc(0).into_iter()", [[0], [1], [2], [3]]),
    (Opt(Opt(INT)), "optopt(0)", [[0], [1], [2], [3]]),
    (Iter(Opt(INT)), "vcopt(0).into_iter()", [[0], [1], [2]]),
    (Iter(Tup(INT, INT)), "vctup(0).into_iter()", [[0], [1], [2]]),
    (Iter(Vec(INT)), "vcvec(0).into_iter()", [[0], [1], [2]]),
    (Opt(Tup(INT, INT)), "opttup(0)", [[0], [3]]),
    (INT, "int(0)", [[2], [3]]),
]


def enum_chains(rows_fn, start_kind, L, branch=0):
    """All paths of length 0..L from start_kind. Yields lists of Row (site = '<branch>.<index>')."""
    out = []

    def rec(k, path):
        out.append(list(path))
        if len(path) == L:
            return
        for row in rows_fn(k, "%d.%d" % (branch, len(path))):
            if row.pinned and False:
                continue
            path.append(row)
            if row.pinned:
                out.append(list(path))  # pinned rows end the chain
            else:
                rec(row.out, path)
            path.pop()

    rec(start_kind, [])
    return out


def final_kind(start_kind, chain):
    return chain[-1].out if chain else start_kind


def fmt_expr(kind, expr_var):
    """Debug-normalise a value of `kind` held in variable expr_var."""
    if kind[0] == "Iter":
        return 'format!("{:?}", %s.collect::<Vec<_>>())' % expr_var
    return 'format!("{:?}", %s)' % expr_var


# ---------------------------------------------------------------------------------------------
# wrapper rows: X >>> inner <<<  ==  .x(|v| v inner)
# ---------------------------------------------------------------------------------------------
class WRow:
    __slots__ = ("label", "op", "inner_start", "accept", "pinned")

    def __init__(self, label, op, inner_start, accept, pinned=False):
        self.label = label
        self.op = op
        self.inner_start = inner_start
        self.accept = accept  # inner end kind -> outer result kind or None
        self.pinned = pinned


def sync_wrapper_rows(k):
    """wrapper-capable operators applicable to kind k (sync macros)"""
    rows = []
    h = k[0]
    if h in ("Opt", "Res"):
        K = k[1]
        if not nameable(K):
            return rows
        rows.append(WRow("w_map", "|>", K, lambda e: (h, e) if nameable(e) and depth((h, e)) <= MAXDEPTH else None))
        rows.append(WRow("w_and_then", "=>", K, lambda e: e if (e[0] == h and nameable(e)) else None))
        rows.append(WRow("w_inspect", "??", Ref(k), lambda e: k if e == UNIT else None))
        if h == "Opt":
            rows.append(WRow("w_filter", "?>", Ref(K), lambda e: k if e == BOOL else None))
        else:
            rows.append(WRow("w_or_else", "<=", INT, lambda e: k if e == k else None))
            rows.append(WRow("w_map_err", "!>", INT, lambda e: k if e == INT else None))
    elif h == "Iter":
        K = k[1]
        rows.append(WRow("w_map", "|>", K, lambda e: Iter(e) if nameable(e) and depth(Iter(e)) <= MAXDEPTH else None))
        rows.append(WRow("w_filter", "?>", Ref(K), lambda e: k if e == BOOL else None))
        rows.append(WRow("w_find", "?@", Ref(K), lambda e: Opt(K) if e == BOOL else None))
        rows.append(WRow("w_partition", "?&!>", Ref(K), lambda e: Tup(Vec(K), Vec(K)) if e == BOOL else None, pinned=True))
        rows.append(WRow("w_filter_map", "?|>", K, lambda e: Iter(e[1]) if e[0] == "Opt" and nameable(e) else None))
        rows.append(WRow("w_find_map", "?|>@", K, lambda e: e if e[0] == "Opt" and nameable(e) else None))
    return rows


# ---------------------------------------------------------------------------------------------
# async table (futures 0.3: FutureExt / TryFutureExt / StreamExt / TryStreamExt)
# ---------------------------------------------------------------------------------------------
def async_rows(k, site):
    rows = []
    h = k[0]
    S = site

    def add(label, op, operands, out, pinned=False):
        if depth(out) <= MAXDEPTH + 1:
            rows.append(Row(label, op, operands, out, pinned))

    if h == "Fut":
        K_ = k[1]
        if K_[0] == "Fut":
            add("flatten", "^^>", [], K_)
            return rows
        if not nameable(K_):
            return rows
        t = T(K_)
        add("map", "|>", ["|v: %s| { %s; v.bump() }" % (t, evs(S))], k)
        add("inspect", "??", ["|v: &%s| { %s; }" % (t, evs(S))], k)
        add("dot_then", "..", ["then(|v: %s| { %s; ready(v.bump()) })" % (t, evs(S))], k)
        add("dot2_then", ">.", ["then(|v: %s| { %s; ready(v.bump()) })" % (t, evs(S))], k)
        add("then_boxed", "->", ["futures::FutureExt::boxed"], k)
        add("map_ready", "|>", ["|v: %s| { %s; ready(v) }" % (t, evs(S))], Fut(k))
        add("dot_into_stream", "..", ["into_stream()"], Str(K_))
        if K_[0] == "Res" and nameable(K_[1]):
            ti = T(K_[1])
            add("and_then", "=>", ["|v: %s| { %s; ready(if v.p() { Ok::<%s, i32>(v.bump()) } else { Err(5) }) }" % (ti, evs(S), ti)], k)
            add("or_else", "<=", ["|e: i32| { ev(\"%s\", &e); ready(if e.p() { Ok::<%s, i32>(<%s as D>::d()) } else { Err(e + 1) }) }" % (S, ti, ti)], k)
            add("map_err", "!>", ["|e: i32| { ev(\"%s\", &e); e + 3 }" % S], k)
    elif h == "Str":
        K_ = k[1]
        t = T(K_)
        add("map", "|>", ["|v: %s| { %s; v.bump() }" % (t, evs(S))], k)
        add("filter", "?>", ["|v: &%s| { %s; ready(v.p()) }" % (t, evs(S))], k)
        add("filter_map", "?|>", ["|v: %s| { %s; ready(if v.p() { Some(v.bump()) } else { None }) }" % (t, evs(S))], k)
        add("chain", ">@>", ['lg("%s", iter(<Vec<%s> as D>::d()))' % (S, t)], k)
        add("dot_skip", "..", ["skip(1)"], k)
        add("inspect", "??", ["|v: &%s| { %s; }" % (t, evs(S))], k)
        add("enumerate", "|n>", [], Str(Tup(USIZE, K_)))
        add("zip", ">^>", ['lg("%s", iter(vec![7i32, 8, 9]))' % S], Str(Tup(K_, INT)))
        add("fold", "^@", ["0i32", "|acc: i32, v: %s| { %s; ready(acc.wrapping_mul(3).wrapping_add(v.w())) }" % (t, evs(S))], Fut(INT))
        add("collect_t", "=>[]", ["Vec<%s>" % t], Fut(Vec(K_)))
        if K_[0] == "Tup":
            a, b = T(K_[1]), T(K_[2])
            add("unzip_t", "<->", [a, b, "Vec<%s>" % a, "Vec<%s>" % b], Fut(Tup(Vec(K_[1]), Vec(K_[2]))))
        if K_[0] == "Res" and nameable(K_[1]):
            ti = T(K_[1])
            add("try_and_then", "=>", ["|v: %s| { %s; ready(if v.p() { Ok::<%s, i32>(v.bump()) } else { Err(5) }) }" % (ti, evs(S), ti)], k)
            add("try_map_err", "!>", ["|e: i32| { ev(\"%s\", &e); e + 3 }" % S], k)
            add("try_fold", "?^@", ["0i32", "|acc: i32, v: %s| { %s; ready(if v.p() { Ok::<i32, i32>(acc.wrapping_mul(3).wrapping_add(v.w())) } else { Err(6) }) }" % (ti, evs(S))], Fut(Res(INT)))
            add("try_collect", "..", ["try_collect::<Vec<%s>>()" % ti], Fut(Res(Vec(K_[1]))))
    return rows


ASYNC_STARTS = [
    (Fut(INT), "ready(int(0))", [[2], [3]]),
    (Fut(Res(INT)), "ready(res(0))", [[2], [3], [-7]]),
    (Fut(Opt(INT)), "ready(opt(0))", [[2], [0]]),
    (Str(INT), "iter(vc(0))", [[0], [1], [2], [3]]),
    (Str(Res(INT)), "iter(vcres(0))", [[0], [1], [2]]),
    (Str(Tup(INT, INT)), "iter(vctup(0))", [[0], [1], [2]]),
]
