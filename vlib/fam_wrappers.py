"""C02 family: every wrapper-capable operator x inner chains x closing modes x nesting x `~` placements."""
from . import dsl
from . import kinds as K
from .dsl import B, Branch, O, Op, Program, Wrap
from .e2 import Prog

STARTS = [
    (K.Opt(K.INT), "opt(0)", [[2], [3], [0]]),
    (K.Res(K.INT), "res(0)", [[2], [3], [-7]]),
    (K.Iter(K.INT), "vc(0).into_iter()", [[0], [2], [3]]),
    (K.Opt(K.Opt(K.INT)), "optopt(0)", [[0], [1], [2], [3]]),
    (K.Iter(K.Opt(K.INT)), "vcopt(0).into_iter()", [[0], [1], [2]]),
]


class Gen:
    """enumerates item lists (dsl items + final kind) with a global site counter per program"""

    def __init__(self, inner_len, nest):
        self.inner_len = inner_len
        self.nest = nest

    def chains(self, kind, length, wdepth, site):
        """all item lists of exactly 0..length plain rows from `kind`, possibly containing nested closed wrappers
        (when wdepth < nest). yields (items, final kind, labels, pinned)"""
        out = [([], kind, [], False)]
        if length == 0:
            return out
        for row in K.sync_rows(kind, "0.%s.%d" % (site, length)):
            if row.pinned:
                continue
            item = Op(row.op, [O(t) for t in row.operands])
            for rest, fk, labels, pinned in self.chains(row.out, length - 1, wdepth, site):
                out.append(([item] + rest, fk, [row.label] + labels, pinned))
        if wdepth < self.nest:
            for w in K.sync_wrapper_rows(kind):
                if w.pinned:
                    continue
                for inner, ik, ilabels, _ in self.chains(w.inner_start, min(self.inner_len, length), wdepth + 1, site + "n"):
                    ok = w.accept(ik)
                    if ok is None:
                        continue
                    item = Wrap(w.op, inner, close=True)
                    for rest, fk, labels, pinned in self.chains(ok, length - 1, wdepth, site):
                        out.append(([item] + rest, fk, ["[%s:%s]" % (w.label, "-".join(ilabels) or "id")] + labels, pinned))
        return out


def second_branch(is_try, flavour):
    if not is_try:
        return Branch(
            O("int(1)"),
            [Op("->", [B('ev0("c.0.1.1"); |v: i32| { ev("1.0.f", &v); v.bump() }')]), Op("->", [B('ev0("c.1.1.1"); |v: i32| { ev("1.1.f", &v); v.bump() }')], deferred=True)],
        ), "i32"
    if flavour == "Opt":
        return Branch(
            O("opt(1)"),
            [Op("|>", [B('ev0("c.0.1.1"); |v: i32| { ev("1.0.f", &v); v.bump() }')]), Op("|>", [B('ev0("c.1.1.1"); |v: i32| { ev("1.1.f", &v); v.bump() }')], deferred=True)],
        ), "i32"
    return Branch(
        O("res(1)"),
        [Op("|>", [B('ev0("c.0.1.1"); |v: i32| { ev("1.0.f", &v); v.bump() }')]), Op("|>", [B('ev0("c.1.1.1"); |v: i32| { ev("1.1.f", &v); v.bump() }')], deferred=True)],
    ), "i32"


PREFERRED = ["map", "inspect", "then_closure", "or", "dot_ok_or", "dot_ok", "dot_into_iter", "find", "collect_t", "dot_count", "then_some", "dot_len", "dot_checked_add", "dot_0"]


def outer_ops(kind, n):
    """up to n representative plain rows applicable to `kind` (preference order above)"""
    rows = [r for r in K.sync_rows(kind, "0.o.1") if not r.pinned]
    rows.sort(key=lambda r: PREFERRED.index(r.label) if r.label in PREFERRED else 99)
    return rows[:n]


def programs(tier):
    nest = 2 if tier == "quick" else 3
    g = Gen(1 if tier == "quick" else 2, nest)  # inner chains of NESTED wrappers: length <= 1 (quick) / 2
    progs = []
    stats = {"wrappers": set(), "programs": 0, "layouts": set()}
    for start, init, rows in STARTS:
        for w in K.sync_wrapper_rows(start):
            for inner, ik, ilabels, _ in g.chains(w.inner_start, 2, 1, "i"):
                ok = w.accept(ik)
                if ok is None:
                    continue
                nested = any(isinstance(x, Wrap) for x in inner)
                plain_len = len(inner)
                # quick: full layouts for inner length <= 1, {close, open} for longer / nested inner chains
                full = (plain_len <= 1 and not nested) if tier == "quick" else (plain_len <= 1 or not nested)
                variants = [("", inner)]
                # (a hoisted capture is borrowed by the wrapper closure: a lazy iterator that escapes the macro cannot carry it)
                if full and start[0] != "Iter" and inner and isinstance(inner[0], Op) and inner[0].operands and inner[0].op not in ("..", ">.", "=>[]", "<->") and not inner[0].operands[0].text.startswith("lg("):
                    first = inner[0]
                    cap = Op(first.op, [B('ev0("c.x.0.0"); %s' % first.operands[0].text)] + first.operands[1:])
                    variants.append(("cap", [cap] + inner[1:]))
                    # the same operand as a PARENTHESISED block: an ordinary expression, evaluated where it stands — inside the wrapper
                    # closure, i.e. as often as that closure runs (never, once, once per item) and not before
                    par = Op(first.op, [O('({ ev0("p.x.0.0"); %s })' % first.operands[0].text)] + first.operands[1:])
                    variants.append(("paren", [par] + inner[1:]))
                for vname, inn in variants:
                    # (name, items, final kind, pinned, kinds at the end of every step)
                    layouts = [("close", [Wrap(w.op, inn, close=True)], ok, w.pinned, [ok]), ("open", [Wrap(w.op, inn, close=False)], ok, w.pinned, [ok])]
                    if full:
                        for row in ([] if w.pinned else outer_ops(ok, 3 if tier == "quick" else 5)):
                            o = Op(row.op, [O(t) for t in row.operands])
                            od = Op(row.op, [O(t) for t in row.operands], deferred=True)
                            layouts.append(("close+" + row.label, [Wrap(w.op, inn, close=True), o], row.out, False, [row.out]))
                            layouts.append(("close~" + row.label, [Wrap(w.op, inn, close=True), od], row.out, False, [ok, row.out]))
                            layouts.append(("open~" + row.label, [Wrap(w.op, inn, close=False), od], row.out, False, [ok, row.out]))
                        layouts.append(("~wrap", [Wrap(w.op, inn, deferred=True, close=False)], ok, w.pinned, [start, ok]))
                        layouts.append(("~wrap-close", [Wrap(w.op, inn, deferred=True, close=True)], ok, w.pinned, [start, ok]))
                    macs = ("join", "try_join") if (full or tier != "quick") else ("join",)
                    for lname, items, fk, pinned, stepkinds in layouts:
                        stats["layouts"].add(lname.split("+")[0].split("~")[0] + ("~" if "~" in lname else ""))
                        for mac in macs:
                            is_try = mac.startswith("try")
                            if is_try and (fk[0] not in ("Opt", "Res") or not K.nameable(fk) or any(sk[0] != fk[0] for sk in stepkinds)):
                                continue  # try macros: every step must end in the same Option/Result flavour
                            flavour = fk[0] if is_try else None
                            b1, t1 = second_branch(is_try, flavour)
                            p = Program(mac, [Branch(O(init), items), b1], flavour=flavour)
                            d = dsl.program_dsl(p)
                            r = dsl.program_ref(p)
                            if is_try:
                                ann = ""
                                fm = 'format!("{:?}", x)'
                            else:
                                if pinned and not K.nameable(fk):
                                    continue
                                ann = ": (%s, i32)" % K.T(fk) if pinned else ""
                                fm = 'format!("{:?}", (x.0.collect::<Vec<_>>(), x.1))' if fk[0] == "Iter" else 'format!("{:?}", x)'
                            pid = "%s/%s/%s/%s%s/%s" % (mac, K.short(start), w.label, "-".join(ilabels) or "id", vname, lname)
                            rows2 = [r0 + [5] for r0 in rows]
                            progs.append(Prog(pid, "let x%s = %s;\n%s" % (ann, r, fm), "let x%s = %s;\n%s" % (ann, d, fm), rows2, "Full", meta={"macro": mac, "dsl": d, "ref": r}))
                            stats["wrappers"].add((K.short(start), w.op))
    stats["programs"] = len(progs)
    return progs, stats


# ---------------------------------------------------------------------------------------------
# async wrappers (futures combinators): X >>> inner <<< == .x(|v| v inner) on futures and streams
# ---------------------------------------------------------------------------------------------
ASYNC_PRE = """use futures::future::ready;
use futures::stream::iter;
fn okf<T>(v: T) -> futures::future::Ready<Result<T, i32>> { ready(Ok(v)) }
fn recf(e: i32) -> futures::future::Ready<Result<i32, i32>> { ready(if e % 2 == 0 { Ok(e + 1) } else { Err(e + 2) }) }
"""


def async_wrapper_programs(tier):
    progs = []
    INT, OPT, RES = K.INT, K.Opt(K.INT), K.Res(K.INT)

    def inner_chains(kind, n):
        """plain inner chains (no `??`: inside an async macro it means .inspect) of length <= n from a value kind"""
        out = [([], kind, [])]
        if n == 0:
            return out
        for row in K.sync_rows(kind, "0.i.%d" % n):
            if row.pinned or row.op == "??" or row.out[0] == "Iter":
                continue
            item = Op(row.op, [O(t) for t in row.operands])
            for rest, fk, labels in inner_chains(row.out, n - 1):
                out.append(([item] + rest, fk, [row.label] + labels))
        # inside a wrapper of an async macro `??` is still `.inspect(f)`: on a wrapped Option / Result that is the value's OWN inspect,
        # whose callback sees the payload (not the whole value)
        if kind in (OPT, RES):
            item = Op("??", [O('|v: &i32| { ev("0.i.q%d", v); }' % n)])
            for rest, fk, labels in inner_chains(kind, n - 1):
                out.append(([item] + rest, fk, ["inspect_payload"] + labels))
        return out

    n_in = 1 if tier == "quick" else 2
    cases = []
    # (start text, rows, wrapper op, inner start kind, accept(inner end) -> (extra inner items, final awaited kind or None), finishing items after close)
    for vk, init, rows in ((INT, "ready(int(0))", [[2], [3]]), (OPT, "ready(opt(0))", [[2], [0]]), (RES, "ready(res(0))", [[2], [-7]])):
        cases.append((init, rows, "|>", vk, lambda e: ([], e) if K.nameable(e) else None, []))
        cases.append((init, rows, "??", K.Ref(vk), lambda e: ([], None) if e == K.UNIT else None, []))
    cases.append(("ready(res(0))", [[2], [3], [-7]], "=>", INT, lambda e: ([Op("->", [O("okf")])], K.Res(e)) if K.nameable(e) else None, []))
    cases.append(("ready(res(0))", [[2], [-7], [-8]], "<=", INT, lambda e: ([Op("->", [O("recf")])], RES) if e == INT else None, []))
    cases.append(("ready(res(0))", [[2], [-7]], "!>", INT, lambda e: ([], RES) if e == INT else None, []))
    fin = [Op("=>[]", [O("Vec<_>")])]
    cases.append(("iter(vc(0))", [[0], [2], [3]], "|>", INT, lambda e: ([], K.Vec(e)) if K.nameable(e) else None, fin))
    cases.append(("iter(vc(0))", [[0], [2], [3]], "?>", K.Ref(INT), lambda e: ([Op("->", [O("ready")])], K.Vec(INT)) if e == K.BOOL else None, fin))
    cases.append(("iter(vc(0))", [[0], [2], [3]], "?|>", INT, lambda e: ([Op("->", [O("ready")])], K.Vec(e[1])) if e[0] == "Opt" and K.nameable(e) else None, fin))
    for ci, (init, rows, wop, istart, accept, finishing) in enumerate(cases):
        for inner, ik, ilabels in inner_chains(istart, n_in):
            acc = accept(ik)
            if acc is None:
                continue
            extra, fk = acc
            for lname, items in (("close", [Wrap(wop, inner + extra, close=True)] + finishing), ("open", [Wrap(wop, inner + extra, close=False)]) if not finishing else ("~fin", [Wrap(wop, inner + extra, close=True)] + finishing)):
                for mac in ("join_async", "try_join_async"):
                    is_try = mac.startswith("try")
                    if is_try and not (fk is not None and fk[0] == "Res" or (fk is None and "res(" in init)):
                        continue
                    b1 = Branch(O("ready(Ok::<i32, i32>(lg(\"1.0.i\", 5)))" if is_try else "ready(lg(\"1.0.i\", 5))"), [])
                    p = Program(mac, [Branch(O(init), items), b1], flavour="Res" if is_try else None)
                    d = dsl.program_dsl(p)
                    r = dsl.program_ref(p, anyof=is_try)
                    fmt = '\nformat!("{:?}", x)'
                    rb = "futures::executor::block_on(%s)" % r if is_try else "let x = futures::executor::block_on(%s);%s" % (r, fmt)
                    mb = "let x = futures::executor::block_on(%s);%s" % (d, fmt)
                    pid = "aw/%s/%d/%s/%s" % (mac, ci, "-".join(ilabels) or "id", lname)
                    rows2 = [r0 + [5] for r0 in rows]
                    progs.append(Prog(pid, rb, mb, rows2, "TryAsync" if is_try else "ProjSteps", meta={"macro": mac, "dsl": d, "ref": r}))
    return progs
