"""C19 / C10 families: allocation counting, move-only tokens, !Send values, borrows of caller locals."""
from . import dsl
from . import fam_profiles as fp
from .dsl import ALL_MACROS, B, Branch, O, Op, Program, Wrap
from .e2 import Prog

ALLOC_HEADER = """#[global_allocator]
static __A: vrt::CountAlloc = vrt::CountAlloc;
"""


def alloc_programs(tier):
    """int-only profile programs (plain / capture-rich / wrapper steps) in join!/try_join!: the macro must not allocate where the
    reference does not"""
    progs = []
    for ds in fp.profiles(4, 3):
        for mac in ("join", "try_join"):
            for fl in (("Res", "Opt") if mac == "try_join" else (None,)):
                for rich, wrap in ((False, False), (True, False), (True, True)):
                    if wrap and max(ds) < 2:
                        continue
                    if len(ds) == 4 and (rich or fl == "Opt") and tier == "quick":
                        continue
                    p = fp.build(mac, ds, flavour=fl, rich=rich, wrap=wrap)
                    d, r = dsl.program_dsl(p), dsl.program_ref(p)
                    body = "let (x, n) = count_allocs(|| %s);\nformat!(\"{:?} allocation-free={}\", x, n == 0)"
                    sub = fp.fail_slots(ds) if (mac == "try_join" and sum(ds) <= 6) else ()
                    progs.append(Prog("alloc/%s/%s/%s/%d%d" % (mac, fl, fp.pname(ds), rich, wrap), body % r, body % d, fp.offset_rows() if not sub else [[0]], "Value", meta={"macro": mac, "dsl": d, "ref": r}, sub=sub))
                    # the same program behind every option that changes how the branches of a step are handed over: the
                    # sequential macros must stay allocation-free (e.g. no thread builders prepared "just in case")
                    if len(ds) in (2, 3) and not wrap and fl != "Opt" and (sum(ds) <= 6 or tier != "quick"):
                        for oi, opts in enumerate(("custom_joiner(jm!)", "lazy_branches(true) custom_joiner(jl!)", "lazy_branches(false)", "transpose_results(true) lazy_branches(false)" if mac == "try_join" else "custom_joiner(jm!) lazy_branches(false)")):
                            p.options = [opts]
                            d2 = dsl.program_dsl(p)
                            progs.append(Prog("alloc/%s/%s/%s/%d%d/o%d" % (mac, fl, fp.pname(ds), rich, wrap, oi), body % r, body % d2, fp.offset_rows() if not sub else [[0]], "Value", meta={"macro": mac, "dsl": d2, "ref": r}, sub=sub))
                        p.options = []
    return progs


def exact_alloc_programs():
    """the user code allocates a known number of times; the macro must add none (exact counts compared)"""
    progs = []
    T = [
        ("wrapper-capture-string", "join! { Some(1) |> >>> -> { let s = String::from(\"abcd\"); move |v: i32| v + s.len() as i32 } <<<, 2 }",
         "(Some(1).map(|w| ({ let s = String::from(\"abcd\"); move |v: i32| v + s.len() as i32 })(w)), 2)"),
        ("capture-string", "try_join! { Some(1) |> { let s = String::from(\"abcd\"); move |v: i32| v + s.len() as i32 } ~|> { let t = String::from(\"xy\"); move |v: i32| v + t.len() as i32 }, Some(2) }",
         "{ let a = Some(1).map({ let s = String::from(\"abcd\"); move |v: i32| v + s.len() as i32 }); let b = Some(2); let a = a.map({ let t = String::from(\"xy\"); move |v: i32| v + t.len() as i32 }); match (a, b) { (Some(a), Some(b)) => Some((a, b)), _ => None } }"),
        ("nested-wrapper-capture-vec", "join! { Some(Some(1)) |> >>> |> >>> -> { let v0 = vec![1, 2, 3]; move |v: i32| v + v0.len() as i32 } <<< <<<, 2 }",
         "(Some(Some(1)).map(|w| w.map(|w2| ({ let v0 = vec![1, 2, 3]; move |v: i32| v + v0.len() as i32 })(w2))), 2)"),
    ]
    # many branches: 33 and 40 branches, two and three steps (array helpers of the generated code must not fall back to a Vec)
    for nb, nsteps in ((33, 2), (40, 3)):
        for mac in ("join", "try_join"):
            w = (lambda e: "Some(%s)" % e) if mac == "try_join" else (lambda e: e)
            op = "|>" if mac == "try_join" else "->"
            brs = [w("st(%d, %d)" % (b % 60, b)) + "".join(" ~%s |v: i32| v + %d" % (op, k) for k in range(1, nsteps if b % 3 else 2)) for b in range(nb)]
            args = ", ".join("a%d: i32" % b for b in range(nb))
            total = " + ".join("a%d" % b for b in range(nb))
            d = "%s! { %s, %s => |%s| %s }" % (mac, ", ".join(brs), "map" if mac == "try_join" else "then", args, total)
            vals = []
            for b in range(nb):
                e = "st(%d, %d)" % (b % 60, b)
                for k in range(1, nsteps if b % 3 else 2):
                    e = "(%s + %d)" % (e, k)
                vals.append(e)
            r = "{ %s }" % " + ".join(vals)
            if mac == "try_join":
                r = "Some(%s)" % r
            T.append(("many-%s-%d-%d" % (mac, nb, nsteps), d, r))
    body = "let (x, n) = count_allocs(|| %s);\nformat!(\"{:?} allocations={}\", x, n)"
    for tid, d, r in T:
        progs.append(Prog("allocx/%s" % tid, body % r, body % d, [[0]], "Value", meta={"macro": d.split("!")[0], "dsl": d, "ref": r}))
    return progs


def chain_alloc_programs(tier):
    """every typed chain of length <= 2 with captured operands and `~` before none / the last / every operator (C11's chain family,
    iterator adaptors left open at a step boundary included): the macro evaluation performs EXACTLY as many heap allocations as the
    documented method chain (logging switched off on both sides)"""
    from . import fam_captures

    progs, _ = fam_captures.chain_programs(tier)
    out = []
    for p in progs:
        if not p.id.endswith("/b2"):
            continue

        def wrap(body):
            head, fmt = body.rsplit(";\n", 1)
            assert head.startswith("let x = ")
            return "let (x, __n) = count_allocs(|| %s);\nlet __s = %s;\nformat!(\"{} allocations={}\", __s, __n)" % (head[len("let x = "):], fmt)

        out.append(Prog("allocchain/" + p.id, wrap(p.ref), wrap(p.mac), p.rows, "Value", meta=p.meta))
    return out


def tok_program(mac, ds, rich):
    """profile program over the move-only, non-Clone, drop-logging token type"""
    is_try, is_async = mac in dsl.TRY, mac in dsl.ASYNC
    brs = []
    for b, d in enumerate(ds):
        def out(k, t):
            if is_try:
                e = "st_tr(%d, %d, %s)" % (fp.slot(b, k), fp.payload(b, k), t)
                return "ready(%s)" % e if is_async else e
            return "st_t(%d, %s)" % (fp.slot(b, k), t)
        init = out(0, "Tok::new(%d)" % (b + 1))
        if is_async and not is_try:
            init = "ready(%s)" % init
        items = []
        for k in range(1, d):
            cb = "|t: Tok| { ev(\"%d.%d.f\", &t); %s }" % (b, k, out(k, "t.next(%d)" % k))
            main = B("ev0(\"c.%d.%d.1\"); move %s" % (k, b, cb)) if rich else O(cb)
            dw = rich and is_try and not is_async and k % 2 == 0
            if dw:
                # even steps START with a deferred, explicitly closed wrapper (the `~` belongs to the wrapper operator); its inner
                # callbacks belong to this step: they must not run when the previous step failed
                items.append(Wrap("|>", [Op("->", [O("|t: Tok| { ev(\"%d.%d.w\", &t); t.next(6) }" % (b, k))])], deferred=True, close=True))
                items.append(Op("=>", [main]))
            elif is_try:
                items.append(Op("=>", [main], deferred=True))
            elif is_async:
                items.append(Op("|>", [main], deferred=True))
            else:
                items.append(Op("->", [main], deferred=True))
            if rich and not is_async:
                # a wrapper that consumes and re-creates the token, and an inspection by reference
                if is_try:
                    # inside a wrapper: a plain operand and a block capture that owns a move-only token (must not be cloned)
                    items.append(Wrap("|>", [Op("->", [O("|t: Tok| t.next(7)")]), Op("->", [B("let g = Tok::new(%d); move |t: Tok| { ev(\"%d.%d.g\", &g); t.next(8) }" % (900 + 10 * b + k, b, k))])], close=True))
                    items.append(Op("??", [O("|r: &Result<Tok, i32>| { ev(\"%d.%d.q\", r); }" % (b, k))]))
                else:
                    items.append(Op("??", [O("|t: &Tok| { ev(\"%d.%d.q\", t); }" % (b, k))]))
        brs.append(Branch(O(init), items))
    n = len(ds)
    h = None
    if n <= 3:
        args = ", ".join("a%d: Tok" % i for i in range(n))
        ids = "vec![%s]" % ", ".join("a%d.0" % i for i in range(n))
        body = "{ let v = %s; ev(\"h.9.h\", &v); v }" % ids
        if is_try:
            h = ("map", "|%s| %s" % (args, body), None)
        elif is_async:
            h = ("then", "|%s| async move %s" % (args, body), None)
        else:
            h = ("then", "|%s| %s" % (args, body), None)
    return Program(mac, brs, handler=h, flavour="Res" if is_try else None)


def tok_programs(tier):
    progs = []
    for ds in fp.profiles(3, 3):
        for mac in ALL_MACROS:
            alias = mac in dsl.LONG_NAME
            if alias and (len(ds) != 2):
                continue
            for rich in (False, True):
                if rich and (max(ds) < 2 or alias):
                    continue
                if "async" in mac and tier == "quick" and sum(ds) > 5:
                    continue
                p = tok_program(mac, ds, rich)
                is_try = mac in dsl.TRY
                sub = fp.fail_slots(ds) if (is_try and sum(ds) <= 6) else ()
                progs.append(fp.to_prog("tok/%s/%s/%d" % (mac, fp.pname(ds), rich), p, [[0]], sub=sub))
    return progs


def tok_operator_programs():
    """every operator that types over a move-only value as (a) the deferred FIRST operator of a later step, (b) the first operator of
    step 0, (c) an instant operator in the middle of a step — over Option<Tok>, Result<Tok, i32> and Vec<Tok> iterators in the four
    sequential / thread-spawning macros: no position of no operator may demand Copy / Clone (the value is moved through)."""
    from .dsl import Wrap
    progs = []
    find0 = [Op("?@", [O("|t: &Tok| t.0 > 0")])]
    OPT = [  # (label, items, tail bringing the value back to Option<Tok>)
        ("map", [Op("|>", [O("|t: Tok| t.next(1)")])], []), ("and_then", [Op("=>", [O("|t: Tok| Some(t.next(2))")])], []),
        ("inspect", [Op("??", [O("|o: &Option<Tok>| { ev(\"0.9.q\", o); }")])], []), ("filter", [Op("?>", [O("|t: &Tok| t.0 > 0")])], []),
        ("or", [Op("<|", [O("None::<Tok>")])], []), ("or_else", [Op("<=", [O("|| None::<Tok>")])], []),
        ("then", [Op("->", [O("|o: Option<Tok>| o.map(|t| t.next(3))")])], []), ("dot", [Op("..", [O("map(|t: Tok| t.next(4))")])], []),
        ("zip", [Op(">^>", [O("Some(Tok::new(50))")])], [Op("|>", [O("|p: (Tok, Tok)| p.0")])]),
        ("wrapmap", [Wrap("|>", [Op("->", [O("|t: Tok| t.next(5)")])], close=True)], []),
        ("wrapand", [Wrap("=>", [Op("->", [O("|t: Tok| Some(t.next(5))")])], close=True)], []),
    ]
    RES = [
        ("map", [Op("|>", [O("|t: Tok| t.next(1)")])], []), ("and_then", [Op("=>", [O("|t: Tok| Ok::<Tok, i32>(t.next(2))")])], []),
        ("inspect", [Op("??", [O("|o: &Result<Tok, i32>| { ev(\"0.9.q\", o); }")])], []), ("map_err", [Op("!>", [O("|e: i32| e + 1")])], []),
        ("or_else", [Op("<=", [O("|e: i32| Err::<Tok, i32>(e)")])], []), ("or", [Op("<|", [O("Err::<Tok, i32>(7)")])], []),
        ("then", [Op("->", [O("|o: Result<Tok, i32>| o.map(|t| t.next(3))")])], []), ("dot", [Op("..", [O("map(|t: Tok| t.next(4))")])], []),
    ]
    ITER = [  # over vec![Tok..].into_iter(); the tails end in an Option<Tok> so that the try macros type
        ("map", [Op("|>", [O("|t: Tok| t.next(1)")])], find0), ("filter", [Op("?>", [O("|t: &Tok| t.0 != 21")])], find0),
        ("enumerate", [Op("|n>", [])], [Op("|>", [O("|p: (usize, Tok)| p.1")])] + find0),
        ("find", [Op("?@", [O("|t: &Tok| t.0 > 20")])], []), ("find_map", [Op("?|>@", [O("|t: Tok| if t.0 > 20 { Some(t) } else { None }")])], []),
        ("filter_map", [Op("?|>", [O("|t: Tok| if t.0 > 20 { Some(t.next(6)) } else { None }")])], find0),
        ("chain", [Op(">@>", [O("vec![Tok::new(60)]")])], [Op("?@", [O("|t: &Tok| t.0 > 30")])]),
        ("zip", [Op(">^>", [O("vec![Tok::new(61), Tok::new(62)]")])], [Op("|>", [O("|p: (Tok, Tok)| p.1")])] + find0),
        ("fold", [Op("^@", [O("None::<Tok>"), O("|a: Option<Tok>, t: Tok| { drop(a); Some(t) }")])], []),
        ("collect", [Op("=>[]", [O("Vec<Tok>")])], [Op("..", [O("into_iter()")]), Op("?@", [O("|t: &Tok| t.0 > 20")])]),
        ("partition", [Op("?&!>", [O("|t: &Tok| t.0 > 20")])], [Op("->", [O("|p: (Vec<Tok>, Vec<Tok>)| p.0.into_iter().next()")])]),
    ]
    import copy
    for fam, table, init in (("opt", OPT, "Some(Tok::new(1))"), ("res", RES, "Ok::<Tok, i32>(Tok::new(1))"), ("iter", ITER, "vec![Tok::new(1), Tok::new(21), Tok::new(22)].into_iter()")):
        for label, items, tail in table:
            for pos in ("stepstart", "first", "mid"):
                for mac in ("join", "try_join", "join_spawn", "try_join_spawn"):
                    if fam == "iter" and pos == "stepstart" and mac.startswith("try"):
                        continue  # a try macro's step value is an Option / Result, not an iterator
                    its = copy.deepcopy(items) + copy.deepcopy(tail)
                    if pos == "stepstart":
                        its[0].deferred = True
                    elif pos == "mid":
                        its = [Op("|>", [O("|t: Tok| t.next(8)")])] + its
                    if fam == "res":
                        other = Branch(O("Ok::<Tok, i32>(Tok::new(2))"), [Op("|>", [O("|t: Tok| t.next(9)")], deferred=True)])
                    else:
                        other = Branch(O("Some(Tok::new(2))"), [Op("|>", [O("|t: Tok| t.next(9)")], deferred=True)])
                    p = Program(mac, [Branch(O(init), its), other], flavour=("Res" if fam == "res" else "Opt") if mac.startswith("try") else None)
                    d, r = dsl.program_dsl(p), dsl.program_ref(p)
                    fm = '\nformat!("{:?}", x)'
                    progs.append(Prog("tokop/%s/%s/%s/%s" % (fam, label, pos, mac), "let x = %s;%s" % (r, fm), "let x = %s;%s" % (d, fm), [[0]],
                                      "Full" if "spawn" not in mac else "Proj", meta={"macro": mac, "dsl": d, "ref": r}))
    return progs


RC_PRE = "use std::rc::Rc;\nfn call1<F: Fn(i32) -> i32>(f: F) -> i32 { f(1) }\nfn tail(d: &Vec<i32>) -> &[i32] { ev(\"0.0.f\", d); &d[1..] }\nfn inc(r: &mut i32) -> &mut i32 { *r += 1; r }\nfn dbl(r: &mut i32) -> i32 { *r *= 2; *r }\n"


def rc_programs(tier):
    """!Send values (Rc) in the four non-spawning macros, including long single-step chains"""
    progs = []
    for mac in ("join", "try_join", "join_async", "try_join_async"):
        is_try, is_async = mac in dsl.TRY, mac in dsl.ASYNC
        for nact in (1, 3, 10, 12):
            for steps in (1, 2):
                brs = []
                for b in range(2):
                    def val(e):
                        if is_try:
                            e = "Ok::<Rc<i32>, i32>(%s)" % e
                        return "ready(%s)" % e if is_async else e
                    items = []
                    for s in range(steps):
                        for a in range(nact):
                            res = "Rc::new(*v + %d)" % (1 + a + 10 * s + 100 * b)
                            if is_try and is_async:
                                op, res = "=>", "ready(Ok::<Rc<i32>, i32>(%s))" % res
                            elif is_try or is_async:
                                op = "|>"
                            else:
                                op = "->"
                            items.append(Op(op, [O("|v: Rc<i32>| { ev(\"%d.%d.a%d\", &v); %s }" % (b, s, a, res))], deferred=(s > 0 and a == 0)))
                    brs.append(Branch(O(val("Rc::new(%d)" % (b + 1))), items))
                p = Program(mac, brs, flavour="Res" if is_try else None)
                d, r = dsl.program_dsl(p), dsl.program_ref(p)
                fm = '\nformat!("{:?}", x)'
                if is_async:
                    rb, mb = "let x = bo(%s);%s" % (r, fm), "let x = bo(%s);%s" % (d, fm)
                else:
                    rb, mb = "let x = %s;%s" % (r, fm), "let x = %s;%s" % (d, fm)
                progs.append(Prog("rc/%s/%d/%d" % (mac, nact, steps), rb, mb, [[0]], "Full" if not is_async else "ProjSteps", meta={"macro": mac, "dsl": d, "ref": r}))
    return progs


def borrow_programs():
    """& / &mut borrows of caller locals with non-'static lifetimes threaded through steps, captures, wrappers and handler"""
    progs = []
    T = [
        # (id, macro kinds, dsl template with {M}, reference text, locals prologue, epilogue expression)
        ("closure-mut-borrow", ("join", "try_join"),
         "{M}! {{ {W}(lg(\"0.0.i\", 1)) {OP} |v: i32| {{ hits += 1; {W}(v + 1) }} ~{OP} |v: i32| {{ hits += 10; {W}(v + 1) }}, {W}(2) }}",
         "{{ let a = {W}(lg(\"0.0.i\", 1)); let a = ({OPR}(a, |v: i32| {{ hits += 1; {W}(v + 1) }})); let b = {W}(2); let a = ({OPR}(a, |v: i32| {{ hits += 10; {W}(v + 1) }})); {FIN} }}"),
        ("wrapper-closure-mut-borrow", ("join", "try_join"),
         "{M}! {{ Some(lg(\"0.0.i\", 1)) |> >>> -> |v: i32| {{ hits += 1; v + 1 }} <<< ~|> >>> -> |v: i32| {{ hits += 10; v * 2 }}, Some(2) |> >>> -> |v: i32| {{ left += v; v }} }}",
         "{{ let a = Some(lg(\"0.0.i\", 1)).map(|w| (|v: i32| {{ hits += 1; v + 1 }})(w)); let b = Some(2).map(|w| (|v: i32| {{ left += v; v }})(w)); let a = a.map(|w| (|v: i32| {{ hits += 10; v * 2 }})(w)); {FINO} }}"),
    ]
    for tid, macs, d_t, r_t in T:
        for mac in macs:
            is_try = mac == "try_join"
            if tid == "closure-mut-borrow":
                W = "Some" if is_try else ""
                OP = "=>" if is_try else "->"
                OPR = "(|x: Option<i32>, mut f: &mut dyn FnMut(i32) -> Option<i32>| x.and_then(|v| f(v)))" if is_try else "(|x: i32, f: &mut dyn FnMut(i32) -> i32| f(x))"
                FIN = "match (a, b) { (Some(a), Some(b)) => Some((a, b)), _ => None }" if is_try else "(a, b)"
                d = d_t.format(M=mac, W=W, OP=OP)
                # write the reference by hand (no helper indirection): the documented chain
                if is_try:
                    r = "{ let a = Some(lg(\"0.0.i\", 1)).and_then(|v: i32| { hits += 1; Some(v + 1) }); let b = Some(2); let a = { a }.and_then(|v: i32| { hits += 10; Some(v + 1) }); match (a, b) { (Some(a), Some(b)) => Some((a, b)), _ => None } }"
                else:
                    r = "{ let a = (|v: i32| { hits += 1; v + 1 })(lg(\"0.0.i\", 1)); let b = 2; let a = (|v: i32| { hits += 10; v + 1 })({ a }); (a, b) }"
            else:
                d = d_t.format(M=mac)
                fino = "match (a, b) { (Some(a), Some(b)) => Some((a, b)), _ => None }" if is_try else "(a, b)"
                r = r_t.format(FINO=fino)
            pro = "let mut hits = 0i32; let mut left = 0i32;\n"
            epi = "\nformat!(\"{:?} hits={} left={}\", x, hits, left)"
            progs.append(Prog("borrow/%s/%s" % (tid, mac), pro + "let x = %s;" % r + epi, pro + "let x = %s;" % d + epi, [[0]], "Full", meta={"macro": mac, "dsl": d, "ref": r}))
    # shared / mutable references as branch VALUES, a capture borrowing a local, a handler reading a borrowed slice
    more = [
        ("ref-values",
         "let data = vec![3i32, 4, 5]; let mut slot = 7i32;\n",
         "join! { &data -> tail ~-> |s: &[i32]| s.len(), &mut slot -> inc ~-> dbl, { let d = &data; move |v: i32| v + d[0] } -> call1, then => |a: usize, b: i32, c: i32| (a, b, c, data.len()) }",
         "{ let __h = |a: usize, b: i32, c: i32| (a, b, c, data.len()); let __c = { let d = &data; move |v: i32| v + d[0] }; let a = tail(&data); let b = (inc)(&mut slot); let c = (call1)(__c); let a = (|s: &[i32]| s.len())({ a }); let b = (dbl)({ b }); (__h)(a, b, c) }",
         "\nformat!(\"{:?} slot={}\", x, slot)"),
        ("ref-values-try",
         "let data = vec![3i32, 4, 5]; let mut slot = 7i32;\n",
         "try_join! { Some(&data) |> tail ~|> |s: &[i32]| s.len(), Some(&mut slot) |> inc ~|> dbl, map => |a: usize, b: i32| (a, b, data.len()) }",
         "{ let __h = |a: usize, b: i32| (a, b, data.len()); let a = Some(&data).map(tail); let b = Some(&mut slot).map(inc); let a = { a }.map(|s: &[i32]| s.len()); let b = { b }.map(dbl); match (a, b) { (Some(a), Some(b)) => Some((__h)(a, b)), _ => None } }",
         "\nformat!(\"{:?} slot={}\", x, slot)"),
        ("ref-values-async",
         "let data = vec![3i32, 4, 5]; let mut slot = 7i32;\n",
         # the expansion is an `async move` block: a borrow expression written INSIDE it borrows the moved/copied local, so the
         # references are created outside and moved in (DESIGN §3.17) — they still point into the caller's stack frame
         "{ let rd = &data; let rs = &mut slot; bo(join_async! { ready(rd) |> tail ~|> |s: &[i32]| s.len(), ready(rs) |> inc ~|> dbl }) }",
         "{ let a = tail(&data); let b = (inc)(&mut slot); let a = (|s: &[i32]| s.len())(a); let b = (dbl)(b); (a, b) }",
         "\nformat!(\"{:?} slot={}\", x, slot)"),
    ]
    more += [
        # a local mutated inside a wrapper's inner chain and read again in a later step (all inside the async block): the wrapper
        # closure must borrow it, not take a private copy
        ("async-wrapper-shared-local",
         "let mut hits = 0i32;\n",
         "bo(join_async! { ready(Some(lg(\"0.0.i\", 1))) |> >>> |> |v: i32| { hits += 1; v + 1 } <<< ~|> |o: Option<i32>| (o, hits), ready(2) })",
         "{ let a = Some(lg(\"0.0.i\", 1)).map(|v: i32| { hits += 1; v + 1 }); let b = 2; let a = (a, hits); (a, b) }",
         "\nformat!(\"{:?}\", x)"),
        ("async-try-wrapper-shared-local",
         "let mut hits = 0i32;\n",
         "bo(try_join_async! { ready(Ok::<Option<i32>, i32>(Some(1))) |> >>> |> >>> |> |v: i32| { hits += 10; v + 1 } <<< <<< ~|> |r: Result<Option<i32>, i32>| r.map(|o| (o, hits)), ready(Ok::<i32, i32>(2)) })",
         "{ let a = Ok::<Option<i32>, i32>(Some(1)).map(|w| w.map(|v: i32| { hits += 10; v + 1 })); let b = Ok::<i32, i32>(2); let a = a.map(|o| (o, hits)); match (a, b) { (Ok(a), Ok(b)) => Ok::<_, i32>((a, b)), (Err(e), _) | (_, Err(e)) => Err(e) } }",
         "\nformat!(\"{:?}\", x)"),
        ("sync-wrapper-shared-local",
         "let mut hits = 0i32;\n",
         "join! { Some(lg(\"0.0.i\", 1)) |> >>> -> |v: i32| { hits += 1; v + 1 } <<< ~-> |o: Option<i32>| (o, hits), 2 }",
         "{ let a = Some(lg(\"0.0.i\", 1)).map(|v: i32| { hits += 1; v + 1 }); let b = 2; let a = (a, hits); (a, b) }",
         "\nformat!(\"{:?}\", x)"),
    ]
    more += [
        # a block operand of `->` whose value is an FnMut closure borrowing caller locals mutably: `-> f` CALLS f with the value, and a
        # callable that is the value of a block can be called mutably (no Fn / FnOnce-only demand appears)
        ("block-fnmut-then",
         "let mut hits = 0i32; let mut left = 0i32;\n",
         "join! { lg(\"0.0.i\", 1) -> { let r = &mut hits; move |v: i32| { *r += 1; v + 1 } } ~-> { let r = &mut left; move |v: i32| { *r += 10; v + 1 } }, 2 }",
         "{ let c0 = { let r = &mut hits; move |v: i32| { *r += 1; v + 1 } }; let a = ({ c0 })(lg(\"0.0.i\", 1)); let b = 2; let c1 = { let r = &mut left; move |v: i32| { *r += 10; v + 1 } }; let a = ({ c1 })({ a }); (a, b) }",
         "\nformat!(\"{:?} hits={} left={}\", x, hits, left)"),
        ("block-fnmut-then-try",
         "let mut hits = 0i32; let mut left = 0i32;\n",
         "try_join! { Some(lg(\"0.0.i\", 1)) -> { let r = &mut hits; move |o: Option<i32>| { *r += 1; o } } ~-> { let r = &mut left; move |o: Option<i32>| { *r += 10; o.map(|v| v + 1) } }, Some(2) }",
         "{ let c0 = { let r = &mut hits; move |o: Option<i32>| { *r += 1; o } }; let a = ({ c0 })(Some(lg(\"0.0.i\", 1))); let b = Some(2); let c1 = { let r = &mut left; move |o: Option<i32>| { *r += 10; o.map(|v| v + 1) } }; let a = ({ c1 })({ a }); match (a, b) { (Some(a), Some(b)) => Some((a, b)), _ => None } }",
         "\nformat!(\"{:?} hits={} left={}\", x, hits, left)"),
        ("block-fnmut-then-spawnless-step",
         "let mut hits = 0i32;\n",
         "join_spawn! { lg(\"0.0.i\", 1) ~-> { let r = &mut hits; move |v: i32| { *r += 1; v + 1 } }, 2 }",
         "{ let a = lg(\"0.0.i\", 1); let b = 2; let c1 = { let r = &mut hits; move |v: i32| { *r += 1; v + 1 } }; let a = ({ c1 })({ a }); (a, b) }",
         "\nformat!(\"{:?} hits={}\", x, hits)"),
    ]
    more += [
        # a bare `move` closure takes its captures where it is written: after the initial expression used the value
        ("move-closure-after-use",
         "let data = String::from(\"abc\");\n",
         "join! { Some(data.len()) |> move |len: usize| (data, len), 1 }",
         "(Some(data.len()).map(move |len: usize| (data, len)), 1)",
         "\nformat!(\"{:?}\", x)"),
        ("move-closure-snapshot",
         "let mut c = 1i32; fn bump(c: &mut i32) -> i32 { *c += 1; *c }\n",
         "join! { Some(bump(&mut c)) |> move |v: i32| v * 10 + c ~|> move |v: i32| v * 10 + c, bump(&mut c) }",
         "{ let a = Some(bump(&mut c)).map(move |v: i32| v * 10 + c); let b = bump(&mut c); let a = { a }.map(move |v: i32| v * 10 + c); (a, b) }",
         "\nformat!(\"{:?}\", x)"),
        ("wrapper-capture-owns-string",
         "",
         "join! { Some(1) |> >>> -> { let s = String::from(\"abcd\"); move |v: i32| v + s.len() as i32 } <<<, 2 }",
         "(Some(1).map(|w| ({ let s = String::from(\"abcd\"); move |v: i32| v + s.len() as i32 })(w)), 2)",
         "\nformat!(\"{:?}\", x)"),
    ]
    for tid, pro, d, r, epi in more:
        progs.append(Prog("borrow/%s" % tid, pro + "let x = %s;" % r + epi, pro + "let x = %s;" % d + epi, [[0]], "Full", meta={"macro": d.split("!")[0], "dsl": d, "ref": r}))
    return progs
