"""C01 families: every typed operator chain up to length L, against the documented method chain."""
from . import kinds as K
from .e2 import Prog


def chain_texts(init, chain, is_async=False):
    dsl = init
    ref = "(%s)" % init
    for row in chain:
        dsl += K.dsl_apply(row.op, row.operands)
        ref = K.ref_apply(ref, row.op, row.operands, is_async)
    return dsl, ref


def body(kind, pinned, expr):
    ann = ": %s" % K.T(kind) if pinned else ""
    return "let x%s = %s;\n%s" % (ann, expr, K.fmt_expr(kind, "x"))


PRIMARY = 3  # the first three start kinds (Opt(Int), Res(Int), Iter(Int)) get the deepest bound


def new_stats():
    return {"kinds": set(), "rows": set(), "pairs": set(), "triples": set()}


def sync_chain_programs(L, macros=("join", "try_join"), starts=None, minlen=0, stats=None):
    progs = []
    stats = stats if stats is not None else new_stats()
    for start, init, rows in starts or K.SYNC_STARTS:
        for chain in K.enum_chains(K.sync_rows, start, L):
            if len(chain) < minlen:
                continue
            fk = K.final_kind(start, chain)
            pinned = bool(chain and chain[-1].pinned)
            dsl, ref = chain_texts(init, chain)
            labels = [r.label for r in chain]
            k = start
            stats["kinds"].add(k)
            for r in chain:
                stats["rows"].add((K.short(k), r.label))
                k = r.out
                stats["kinds"].add(k)
            for a, b in zip(chain, chain[1:]):
                stats["pairs"].add((a.op, b.op))
            for a, b, c in zip(chain, chain[1:], chain[2:]):
                stats["triples"].add((a.op, b.op, c.op))
            for mac in macros:
                if mac.startswith("try") and fk[0] not in ("Opt", "Res"):
                    continue
                pid = "%s/%s/%s" % (mac, K.short(start), "-".join(labels) or "id")
                progs.append(
                    Prog(
                        pid,
                        body(fk, pinned, ref),
                        body(fk, pinned, "%s! { %s }" % (mac, dsl)),
                        rows,
                        "Full",
                        meta={"macro": mac, "dsl": "%s! { %s }" % (mac, dsl), "ref": ref},
                    )
                )
    return progs, stats


SECOND_BRANCH_DSL = 'int(1) -> |v: i32| { ev("1.0", &v); v.bump() }'
SECOND_BRANCH_REF = '(|v: i32| { ev("1.0", &v); v.bump() })((int(1)))'


def spawn_chain_programs(L, macros):
    """Two-branch programs so that the chain's value really crosses a thread boundary."""
    progs = []
    for start, init, rows in K.SYNC_STARTS:
        for chain in K.enum_chains(K.sync_rows, start, L):
            fk = K.final_kind(start, chain)
            if chain and chain[-1].pinned:
                continue  # the tuple result would need a full annotation; covered by the single-branch family
            dsl, ref = chain_texts(init, chain)
            labels = [r.label for r in chain]
            rows2 = [r + [5] for r in rows]
            for mac in macros:
                is_try = mac.startswith("try")
                if is_try and fk[0] not in ("Opt", "Res"):
                    continue
                if is_try:
                    wrap = "Some" if fk[0] == "Opt" else "Ok::<i32, i32>"
                    b1d = "%s -> %s" % (SECOND_BRANCH_DSL, wrap)
                    b1r = "(%s)(%s)" % (wrap, SECOND_BRANCH_REF)
                    # reference: transposed tuple; first failing branch wins (branch 0 can fail, branch 1 never does)
                    refx = "{ let a = %s; let b = %s; match (a, b) { (%s(a), %s(b)) => %s((a, b)), (a, _) => a.map(|_| unreachable!()) } }" % (
                        ref,
                        b1r,
                        "Some" if fk[0] == "Opt" else "Ok",
                        "Some" if fk[0] == "Opt" else "Ok",
                        "Some" if fk[0] == "Opt" else "Ok",
                    )
                    inner = fk[1]
                    if inner[0] == "Iter":
                        continue
                    rb = "let x = %s;\nformat!(\"{:?}\", x)" % refx
                    mb = "let x = %s! { %s, %s };\nformat!(\"{:?}\", x)" % (mac, dsl, b1d)
                else:
                    refx = "{ let a = %s; let b = %s; (a, b) }" % (ref, SECOND_BRANCH_REF)
                    if fk[0] == "Iter":
                        fm = 'format!("{:?}", (x.0.collect::<Vec<_>>(), x.1))'
                    else:
                        fm = 'format!("{:?}", x)'
                    rb = "let x = %s;\n%s" % (refx, fm)
                    mb = "let x = %s! { %s, %s };\n%s" % (mac, dsl, SECOND_BRANCH_DSL, fm)
                pid = "%s/%s/%s" % (mac, K.short(start), "-".join(labels) or "id")
                progs.append(Prog(pid, rb, mb, rows2, "Proj", meta={"macro": mac, "dsl": mb.split(";\n")[0][8:], "ref": refx}))
    return progs


ASYNC_HEADER = "use futures::future::ready;\nuse futures::stream::iter;\n"


def async_chain_programs(L, stats=None):
    """every async typed chain whose final kind is a future (a step is awaited), in join_async! / try_join_async!"""
    progs = []
    stats = stats if stats is not None else new_stats()
    for start, init, rows in K.ASYNC_STARTS:
        for chain in K.enum_chains(K.async_rows, start, L):
            fk = K.final_kind(start, chain)
            if fk[0] != "Fut" or fk[1][0] == "Fut":
                continue
            dsl, ref = chain_texts(init, chain, is_async=True)
            labels = [r.label for r in chain]
            k = start
            stats["kinds"].add(k)
            for r in chain:
                stats["rows"].add((K.short(k), r.label))
                k = r.out
                stats["kinds"].add(k)
            for a, b in zip(chain, chain[1:]):
                stats["pairs"].add((a.op, b.op))
            rb = "let x = futures::executor::block_on(async move { use futures::{FutureExt, TryFutureExt, StreamExt, TryStreamExt}; %s.await });\nformat!(\"{:?}\", x)" % ref
            variants = [("", dsl, rb)]
            # `~` in front of the last operator when the value before it is a (non-nested) future: the step is awaited and the
            # next step continues from a future of that value — `~-> f` receives a future like every other `->`
            if len(chain) >= 1:
                before = chain[-2].out if len(chain) >= 2 else start
                if before[0] == "Fut" and before[1][0] not in ("Fut",) and K.nameable(before[1]):
                    dsl_pre, ref_pre = chain_texts(init, chain[:-1], is_async=True)
                    last = chain[-1]
                    dsl_d = dsl_pre + " ~" + K.dsl_apply(last.op, last.operands).lstrip()
                    ref_d = K.ref_apply("futures::future::ready(__s0)", last.op, last.operands, True)
                    rb_d = "let x = futures::executor::block_on(async move { use futures::{FutureExt, TryFutureExt, StreamExt, TryStreamExt}; let __s0 = %s.await; %s.await });\nformat!(\"{:?}\", x)" % (ref_pre, ref_d)
                    variants.append(("~", dsl_d, rb_d))
            for vn, dsl_v, rb_v in variants:
                for mac in ("join_async", "try_join_async"):
                    if mac.startswith("try") and fk[1][0] != "Res":
                        continue
                    if vn == "~" and mac.startswith("try"):
                        continue  # (a try macro aborts after a failing step: the step semantics of try macros are C05/C06's)
                    mb = "let x = futures::executor::block_on(%s! { %s });\nformat!(\"{:?}\", x)" % (mac, dsl_v)
                    progs.append(Prog("%s/%s/%s%s" % (mac, K.short(start), "-".join(labels) or "id", vn), rb_v, mb, rows, "Full", meta={"macro": mac, "dsl": "%s! { %s }" % (mac, dsl_v), "ref": rb_v}))
    return progs, stats
