"""E3-A — async wake-up/decision explorer driver: one harness crate in which `tokio` is the vtokio shim (Cargo rename)
and the real futures 0.3 is used unchanged; the UNMODIFIED macro output runs on the deterministic executor rt/vexec."""
import json
import os
import shutil
import subprocess
import time
from concurrent.futures import ThreadPoolExecutor

from .common import NCPU, REPO, TARGET, VERIF, WORK, MachineryError, cargo_env, write_if_changed
from .e2 import _attribute

HEADER = """#![allow(warnings)]
#![recursion_limit = "1024"]
use vrt::*;
use join::*;
use vexec::harness::{AProg, gated, gated_r, gated2, gvia};
use vexec::gate;
fn after<T>(_: (), v: T) -> T { v }
fn opnd<T>(site: &'static str, ps: usize, v: T) -> T { let v = lg(site, v); maybe_panic(ps); v }
use vexec::Root;
use futures::future::ready;
"""


class AProg:
    def __init__(self, id, ref, mac, gates, gate_of, depths, rows=((0,),), sub=(), panics=(), spurious=1, cap=3000000, prune=True, crosscheck=False, maxd=4, meta=None):
        self.id = id
        self.ref = ref
        self.mac = mac  # body of fn mk() -> Root
        self.gates = list(gates)
        self.gate_of = list(gate_of)
        self.depths = list(depths)
        self.rows = [list(r) for r in rows]
        self.sub = list(sub)
        self.panics = list(panics)
        self.spurious = spurious
        self.cap = cap
        self.prune = prune
        self.crosscheck = crosscheck
        self.maxd = maxd
        self.meta = meta or {}


def _rs_opt_str(c):
    return "None" if c is None else "Some(%s)" % json.dumps(c)


def render(sets):
    """sets: {name: [TProg]} -> (text, ranges, fn index)"""
    lines = HEADER.split("\n")
    if lines[-1] == "":
        lines.pop()
    ranges = []
    fns = {}  # (ref, mac) -> index
    plist = []

    def emit(text, idx, part):
        start = len(lines) + 1
        lines.extend(text.split("\n"))
        ranges.append((start, len(lines), idx, part))

    for name in sorted(sets):
        for p in sets[name]:
            key = (p.ref, p.mac)
            if key not in fns:
                i = len(fns)
                fns[key] = i
                plist.append(p)
                lines.append("pub mod f%d {" % i)
                lines.append("use super::*;")
                emit("pub fn r() -> String {\n%s\n}" % p.ref, i, "r")
                emit("pub fn m() -> Root {\n%s\n}" % p.mac, i, "m")
                lines.append("}")
    lines.append("fn main() {")
    lines.append('    let set = std::env::var("VS_SET").unwrap_or_default();')
    for name in sorted(sets):
        lines.append("    if set == %s {" % json.dumps(name))
        lines.append("        vexec::harness::drive(&[")
        for p in sets[name]:
            i = fns[(p.ref, p.mac)]
            rows = ", ".join("&[%s]" % ", ".join(str(x) for x in r) for r in p.rows)
            lines.append(
                "            AProg { id: %s, r: f%d::r, mk: f%d::m, gates: &[%s], gate_of: &[%s], depths: &[%s], rows: &[%s], sub: &[%s], panics: &[%s], maxd: %d, spurious: %d, cap: %d, prune: %s, crosscheck: %s },"
                % (
                    json.dumps(p.id), i, i, ", ".join(map(str, p.gates)), ", ".join("(%d, %d, %d)" % t for t in p.gate_of),
                    ", ".join(map(str, p.depths)), rows, ", ".join(map(str, p.sub)), ", ".join(map(str, p.panics)), p.maxd, p.spurious, p.cap,
                    "true" if p.prune else "false", "true" if p.crosscheck else "false",
                )
            )
        lines.append("        ]);")
        lines.append("    }")
    lines.append("}")
    return "\n".join(lines) + "\n", ranges, plist


class SetResult:
    def __init__(self):
        self.programs = 0
        self.rows = 0
        self.executions = 0
        self.decisions = 0
        self.states = 0
        self.nontrivial = 0
        self.capped = 0
        self.violations = []  # (TProg, dict)
        self.compile_violations = []
        self.results = {}
        self.selftest = None
        self.build_s = 0.0
        self.run_s = 0.0
        self.max_orders = 0
        self.hung = []
        self.crosschecks = 0
        self.unpruned_executions = 0


def build(name, sets, timeout=3000):
    """Build the harness crate `name` containing the given sets. Returns (exe, compile_violations)."""
    d = os.path.join(WORK, "e3a", name)
    os.makedirs(os.path.join(d, "src"), exist_ok=True)
    pkg = "e3a_%s" % name
    write_if_changed(
        os.path.join(d, "Cargo.toml"),
        "[package]\nname = %s\nversion = \"0.1.0\"\nedition = \"2018\"\n\n[dependencies]\njoin = { path = \"%s/join\" }\nvrt = { path = \"%s/rt/vrt\" }\nvexec = { path = \"%s/rt/vexec\" }\ntokio = { package = \"vtokio\", path = \"%s/rt/vtokio\" }\nfutures = \"0.3\"\n\n[profile.dev]\ndebug = 0\nincremental = false\nopt-level = 0\n\n[workspace]\n"
        % (json.dumps(pkg), REPO, VERIF, VERIF, VERIF),
    )
    lock = os.path.join(d, "Cargo.lock")
    if not os.path.exists(lock):
        shutil.copyfile(os.path.join(REPO, "Cargo.lock"), lock)
    target = os.path.join(TARGET, "e3a")
    compile_violations = []
    excluded = set()
    for attempt in range(4):
        cur = {k: [p for p in v if p.id not in excluded] for k, v in sets.items()}
        text, ranges, plist = render(cur)
        write_if_changed(os.path.join(d, "src", "main.rs"), text)
        proc = subprocess.run(
            ["cargo", "build", "--offline", "--message-format=json", "-q"],
            cwd=d, env=cargo_env({"CARGO_TARGET_DIR": target}), stdout=subprocess.PIPE, stderr=subprocess.PIPE, text=True, timeout=timeout,
        )
        if proc.returncode == 0:
            return os.path.join(target, "debug", pkg), compile_violations
        errs = []
        for line in proc.stdout.splitlines():
            if not line.startswith("{"):
                continue
            m = json.loads(line)
            if m.get("reason") != "compiler-message" or m["message"].get("level") != "error":
                continue
            if m["message"].get("message", "").startswith("aborting due to"):
                continue
            tname = m.get("target", {}).get("name", "")
            if tname != pkg:
                raise MachineryError("build of %s failed in dependency %s:\n%s" % (pkg, tname, m["message"].get("rendered", "")[:3000]))
            at = _attribute(m["message"], {pkg: ranges}, pkg)
            errs.append((at, m["message"].get("rendered", "")))
        if not errs:
            raise MachineryError("cargo build of %s failed:\n%s" % (pkg, proc.stderr[-3000:]))
        for at, rendered in errs:
            if at is None:
                raise MachineryError("unattributable compile error in %s:\n%s" % (pkg, rendered[:3000]))
            idx, part = at
            p = plist[idx]
            if part != "m":
                raise MachineryError("compile error in the reference of %s:\n%s" % (p.id, rendered[:3000]))
            # exclude every TProg sharing this function
            for v in sets.values():
                for q in v:
                    if (q.ref, q.mac) == (p.ref, p.mac) and q.id not in excluded:
                        excluded.add(q.id)
                        compile_violations.append((q, rendered[:3000]))
    raise MachineryError("harness %s still does not build after excluding %d programs" % (name, len(excluded)))


def run_set(exe, setname, progs, shards=None, timeout=3000):
    res = SetResult()
    shards = shards or NCPU
    t0 = time.time()

    # a shard normally needs seconds (quick) / minutes (thorough); an execution that blocks forever inside the code under test
    # (a poll or a thread that never returns) is turned into a verdict for the program that was running
    limit = int(os.environ.get("VERIF_E3_TIMEOUT", "240" if os.environ.get("VERIF_TIER_RUNNING", "quick") == "quick" else "3000"))
    order = [p.id for p in progs]
    hung = []

    def one(s):
        try:
            p = subprocess.run([exe], env=cargo_env({"VS_SET": setname, "VS_SHARD": str(s), "VS_NSHARDS": str(shards)}), stdout=subprocess.PIPE, stderr=subprocess.PIPE, text=True, timeout=limit)
        except subprocess.TimeoutExpired as e:
            out = e.stdout.decode() if isinstance(e.stdout, bytes) else (e.stdout or "")
            done = set()
            for line in out.splitlines():
                if line.startswith("{") and '"id"' in line:
                    try:
                        done.add(json.loads(line)["id"])
                    except ValueError:
                        pass
            mine = [pid for i, pid in enumerate(order) if i % shards == s]
            first = next((pid for pid in mine if pid not in done), None)
            hung.append((first, [pid for pid in mine if pid not in done]))
            return out
        if p.returncode != 0:
            raise MachineryError("E3-A shard %d of set %s exited with %d:\n%s" % (s, setname, p.returncode, p.stderr[-2000:]))
        return p.stdout

    with ThreadPoolExecutor(max_workers=shards) as ex:
        outs = list(ex.map(one, range(shards)))
    res.run_s = time.time() - t0
    by_id = {p.id: p for p in progs}
    for out in outs:
        for line in out.splitlines():
            if not line.startswith("{"):
                continue
            d = json.loads(line)
            res.results[d["id"]] = d
            res.rows += d["rows"]
            res.executions += d["executions"]
            res.decisions += d["decisions"]
            res.states += d["states"]
            res.max_orders = max(res.max_orders, d["max_logs_per_row"])
            res.crosschecks += d["crosschecks"]
            res.unpruned_executions += d["unpruned_executions"]
            if not d["crosscheck_ok"]:
                raise MachineryError("explicit-state pruning of %s disagrees with the unpruned exploration (states or outcomes differ): the state abstraction is wrong" % d["id"])
            if d["capped"]:
                res.capped += 1
            if d["max_logs_per_row"] >= 2:
                res.nontrivial += 1
            for v in d["viols"]:
                if v["what"].startswith("MACHINERY"):
                    raise MachineryError("%s: %s" % (d["id"], v["what"]))
                if not v["replay_identical"]:
                    raise MachineryError("violation of %s did not reproduce when its schedule was replayed: %s" % (d["id"], v["what"]))
                res.violations.append((by_id[d["id"]], v, d["nviol"]))
    res.programs = len(progs)
    res.hung = hung
    skipped = {pid for _, rest in hung for pid in rest}
    missing = [p.id for p in progs if p.id not in res.results and p.id not in skipped]
    if missing:
        raise MachineryError("no E3-A result for %d programs, e.g. %s" % (len(missing), missing[:3]))
    return res
