"""E1 driver: builds rt/e1 against $VERIF_REPO/join_impl and runs one mode; returns the parsed JSON lines."""
import json
import os
import shutil
import subprocess

from .common import REPO, TARGET, VERIF, WORK, MachineryError, cargo_env, write_if_changed


def build(hooks=False):
    """hooks=True: join_impl with its `verif_hooks` feature + the baton scheduler linked in (C20 interleavings)"""
    d = os.path.join(WORK, "e1_hooks" if hooks else "e1")
    os.makedirs(d, exist_ok=True)
    feat = ', features = ["verif_hooks"]' if hooks else ""
    extra = 'vsched = { path = "%s/rt/vsched" }\nvrt = { path = "%s/rt/vrt" }\n\n[features]\nhooks = []\ndefault = ["hooks"]\n' % (VERIF, VERIF) if hooks else "\n[features]\nhooks = []\n"
    write_if_changed(
        os.path.join(d, "Cargo.toml"),
        "[package]\nname = \"e1\"\nversion = \"0.1.0\"\nedition = \"2018\"\n\n[[bin]]\nname = \"e1\"\npath = \"%s/rt/e1/src/main.rs\"\n\n[dependencies]\njoin_impl = { path = \"%s/join_impl\"%s }\nsyn = { version = \"1.0\", features = [\"full\", \"extra-traits\"] }\nquote = \"1.0\"\nproc-macro2 = \"1.0\"\n%s\n[profile.dev]\nopt-level = 2\ndebug = 0\nincremental = false\n\n[workspace]\n"
        % (VERIF, REPO, feat, extra),
    )
    lock = os.path.join(d, "Cargo.lock")
    if not os.path.exists(lock):
        shutil.copyfile(os.path.join(REPO, "Cargo.lock"), lock)
    target = os.path.join(TARGET, "e1_hooks" if hooks else "e1")
    p = subprocess.run(["cargo", "build", "--offline", "-q"], cwd=d, env=cargo_env({"CARGO_TARGET_DIR": target}), stdout=subprocess.PIPE, stderr=subprocess.PIPE, text=True, timeout=3000)
    if p.returncode != 0:
        raise MachineryError("E1 does not build against %s/join_impl (its public parse/generate API or the verif_hooks feature changed?):\n%s" % (REPO, p.stderr[-4000:]))
    return os.path.join(target, "debug", "e1")


def run(exe, args, timeout=3000, stdin=None):
    p = subprocess.run([exe] + [str(a) for a in args], stdout=subprocess.PIPE, stderr=subprocess.PIPE, text=True, timeout=timeout, env=cargo_env(), input=stdin)
    out = []
    for line in p.stdout.splitlines():
        if line.startswith("{"):
            out.append(json.loads(line))
    if p.returncode == 3:
        return out, "hang"
    if p.returncode != 0:
        raise MachineryError("E1 %s exited with %d:\n%s\n%s" % (args, p.returncode, p.stdout[-2000:], p.stderr[-2000:]))
    return out, None


def run_sharded(exe, args, shards=16, timeout=3000):
    """run `exe args <shard> <nshards>` in parallel processes; returns list of JSON dicts"""
    from concurrent.futures import ThreadPoolExecutor

    def one(s):
        return run(exe, list(args) + [s, shards], timeout=timeout)

    with ThreadPoolExecutor(max_workers=shards) as ex:
        res = list(ex.map(one, range(shards)))
    outs = []
    for out, hang in res:
        if hang:
            return outs, "hang"
        outs.extend(out)
    return outs, None
