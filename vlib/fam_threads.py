"""E3-T program sets (thread-spawning macros under the baton scheduler)."""
from . import dsl
from . import fam_profiles as fp
from .e3t import TProg

SPAWN4 = ["join_spawn", "try_join_spawn", "spawn", "try_spawn"]


def tprog(pid, p, ds, **kw):
    rb, mb, d, r = fp.bodies(p, end_marker=True)
    return TProg(pid, rb, mb, depths=ds, maxd=fp.MAXD, meta={"macro": p.macro, "dsl": d, "ref": r}, **kw)


def barrier_set(tier):
    """C03: every depth profile, one event per branch-step (+ captures for small profiles), no faults."""
    out = []
    nmax, dmax = (3, 3)
    profs = list(fp.profiles(nmax, dmax))
    if tier != "quick":
        profs += list(fp.profiles(4, 2, nmin=4)) + [(1, 2, 3, 4), (4, 4), (4, 1, 4)]
    for ds in profs:
        for mac in SPAWN4:
            p = fp.build(mac, ds, init_ev=True, flavour="Res" if mac.startswith("try") else None)
            out.append(tprog("%s/%s" % (mac, fp.pname(ds)), p, ds))
            rich_ok = (len(ds) <= 2) if tier == "quick" else (len(ds) <= 2 or (len(ds) == 3 and max(ds) <= 2))
            if max(ds) > 1 and rich_ok:
                p = fp.build(mac, ds, init_ev=True, rich=True, flavour="Opt" if mac.startswith("try") else None)
                out.append(tprog("%s/%s/rich" % (mac, fp.pname(ds)), p, ds))
                p = fp.build(mac, ds, init_ev=True, rich=True, wrap=True, flavour="Res" if mac.startswith("try") else None)
                out.append(tprog("%s/%s/wrap" % (mac, fp.pname(ds)), p, ds))
    return out


# every operator of the DSL as the DEFERRED (step-starting) operator of branch 0: (label, initial value, step-0 tail, `~`-operator with
# operands, step-1 tail); every callback / operand / tail logs `0.<step>.…`, iterator adaptors are consumed inside their own step
OPSTEP = [
    ("map", "Some(1)", '-> |o: Option<i32>| { ev("0.0.f", &o); o }', '~|> |v: i32| { ev("0.1.f", &v); v + 1 }', ""),
    ("and_then", "Some(1)", '-> |o: Option<i32>| { ev("0.0.f", &o); o }', '~=> |v: i32| { ev("0.1.f", &v); Some(v + 1) }', ""),
    ("filter", "Some(1)", '-> |o: Option<i32>| { ev("0.0.f", &o); o }', '~?> |v: &i32| { ev("0.1.f", v); true }', ""),
    ("dot", "Some(1)", '-> |o: Option<i32>| { ev("0.0.f", &o); o }', '~..map(|v: i32| { ev("0.1.f", &v); v + 1 })', ""),
    ("dot2", "Some(1)", '-> |o: Option<i32>| { ev("0.0.f", &o); o }', '~>.map(|v: i32| { ev("0.1.f", &v); v + 1 })', ""),
    ("arrow", "Some(1)", '-> |o: Option<i32>| { ev("0.0.f", &o); o }', '~-> |o: Option<i32>| { ev("0.1.f", &o); o }', ""),
    ("or", "None::<i32>", '-> |o: Option<i32>| { ev("0.0.f", &o); o }', '~<| lg("0.1.o", Some(5))', ""),
    ("or_else", "Err::<i32, i32>(1)", '-> |o: Result<i32, i32>| { ev("0.0.f", &o); o }', '~<= |e: i32| { ev("0.1.f", &e); Ok::<i32, i32>(e) }', ""),
    ("map_err", "Err::<i32, i32>(1)", '-> |o: Result<i32, i32>| { ev("0.0.f", &o); o }', '~!> |e: i32| { ev("0.1.f", &e); e + 1 }', ""),
    ("collect", "vec![1, 2].into_iter()", '-> |it: std::vec::IntoIter<i32>| { ev0("0.0.f"); it }', "~=>[] Vec<i32>", '-> |v: Vec<i32>| { ev("0.1.f", &v); v }'),
    ("collect0", "vec![1, 2].into_iter()", '-> |it: std::vec::IntoIter<i32>| { ev0("0.0.f"); it }', "~=>[]", '-> |v: Vec<i32>| { ev("0.1.f", &v); v }'),
    ("chain", "vec![1, 2].into_iter()", '-> |it: std::vec::IntoIter<i32>| { ev0("0.0.f"); it }', '~>@> lg("0.1.o", vec![3].into_iter())', "=>[] Vec<i32>"),
    ("find_map", "vec![1, 2].into_iter()", '-> |it: std::vec::IntoIter<i32>| { ev0("0.0.f"); it }', '~?|>@ |v: i32| { ev("0.1.f", &v); Some(v) }', ""),
    ("filter_map", "vec![1, 2].into_iter()", '-> |it: std::vec::IntoIter<i32>| { ev0("0.0.f"); it }', '~?|> |v: i32| { ev("0.1.f", &v); Some(v) }', "=>[] Vec<i32>"),
    ("enumerate", "vec![1, 2].into_iter()", '-> |it: std::vec::IntoIter<i32>| { ev0("0.0.f"); it }', "~|n>", '=>[] Vec<(usize, i32)> -> |v: Vec<(usize, i32)>| { ev("0.1.f", &v); v }'),
    ("partition", "vec![1, 2].into_iter()", '-> |it: std::vec::IntoIter<i32>| { ev0("0.0.f"); it }', '~?&!> |v: &i32| { ev("0.1.f", v); *v > 1 }', "-> |p: (Vec<i32>, Vec<i32>)| p"),
    ("flatten", "Some(Some(1))", '-> |o: Option<Option<i32>>| { ev("0.0.f", &o); o }', "~^^>", '|> |v: i32| { ev("0.1.f", &v); v + 1 }'),
    ("fold", "vec![1, 2].into_iter()", '-> |it: std::vec::IntoIter<i32>| { ev0("0.0.f"); it }', '~^@ 0, |a: i32, v: i32| { ev("0.1.f", &v); a + v }', ""),
    ("try_fold", "vec![1, 2].into_iter()", '-> |it: std::vec::IntoIter<i32>| { ev0("0.0.f"); it }', '~?^@ 0, |a: i32, v: i32| { ev("0.1.f", &v); Some(a + v) }', ""),
    ("find", "vec![1, 2].into_iter()", '-> |it: std::vec::IntoIter<i32>| { ev0("0.0.f"); it }', '~?@ |v: &i32| { ev("0.1.f", v); *v > 1 }', ""),
    ("zip", "vec![1, 2].into_iter()", '-> |it: std::vec::IntoIter<i32>| { ev0("0.0.f"); it }', '~>^> lg("0.1.o", vec![5, 6].into_iter())', "=>[] Vec<(i32, i32)>"),
    ("unzip", "vec![(1, 2), (3, 4)].into_iter()", '-> |it: std::vec::IntoIter<(i32, i32)>| { ev0("0.0.f"); it }', "~<-> i32, i32, Vec<i32>, Vec<i32>", '-> |p: (Vec<i32>, Vec<i32>)| { ev("0.1.f", &p); p }'),
    ("unzip0", "vec![(1, 2), (3, 4)].into_iter()", '-> |it: std::vec::IntoIter<(i32, i32)>| { ev0("0.0.f"); it }', "~<->", '-> |p: (Vec<i32>, Vec<i32>)| { ev("0.1.f", &p); p }'),
    ("inspect", "Some(1)", '-> |o: Option<i32>| { ev("0.0.f", &o); o }', '~?? |o: &Option<i32>| { ev("0.1.f", o); }', ""),
    ("wrap_map", "Some(Some(1))", '-> |o: Option<Option<i32>>| { ev("0.0.f", &o); o }', '~|> >>> |> |v: i32| { ev("0.1.f", &v); v + 1 }', ""),
    # the deferred operator directly FOLLOWS an operand-less operator / `<<<` (its `~` belongs to it, not to what stands before)
    ("after_flatten", "Some(Some(1))", '-> |o: Option<Option<i32>>| { ev("0.0.f", &o); o } ^^>', '~-> |o: Option<i32>| { ev("0.1.f", &o); o }', ""),
    ("after_enumerate", "vec![1, 2].into_iter()", '-> |it: std::vec::IntoIter<i32>| { ev0("0.0.f"); it } |n>', '~-> |it: std::iter::Enumerate<std::vec::IntoIter<i32>>| { ev0("0.1.f"); it.count() }', ""),
    ("after_collect0", "vec![1, 2].into_iter()", '-> |it: std::vec::IntoIter<i32>| { ev0("0.0.f"); it } =>[]', '~-> |v: Vec<i32>| { ev("0.1.f", &v); v }', ""),
    ("after_unzip0", "vec![(1, 2), (3, 4)].into_iter()", '-> |it: std::vec::IntoIter<(i32, i32)>| { ev0("0.0.f"); it } <->', '~-> |p: (Vec<i32>, Vec<i32>)| { ev("0.1.f", &p); p }', ""),
    ("after_unwrap", "Some(Some(1))", '-> |o: Option<Option<i32>>| { ev("0.0.f", &o); o } |> >>> |> |v: i32| v + 1 <<<', '~-> |o: Option<Option<i32>>| { ev("0.1.f", &o); o }', ""),
    ("wrap_close", "Some(Some(1))", '-> |o: Option<Option<i32>>| { ev("0.0.f", &o); o }', '~|> >>> |> |v: i32| { ev("0.1.f", &v); v + 1 } <<<', '-> |o: Option<Option<i32>>| { ev("0.1.g", &o); o }'),
]


def opstep_set(tier):
    """C03: EVERY operator of the DSL (operand-less ones, typed ones and wrapper openers included) as the deferred operator that
    starts step 1 of branch 0, next to a two-step branch 1; the sequential macro of the same body is the value reference, the
    barrier itself is judged on every schedule from the step tags of the events"""
    out = []
    b1 = 'lg("1.0.i", st(4, 100)) ~-> |v: i32| { ev("1.1.f", &v); v + 1 }'
    b2 = 'lg("2.0.i", st(8, 200)) ~-> |v: i32| { ev("2.1.f", &v); v + 1 } ~-> |v: i32| { ev("2.2.f", &v); v + 1 }'
    for label, init, t0, op, t1 in OPSTEP:
        for mac in ("join_spawn", "spawn"):
            for n in (2, 3):
                if n == 3 and (mac == "spawn" or tier == "quick" and label not in ("flatten", "enumerate", "collect0", "unzip0", "wrap_close", "or", "after_flatten", "after_unwrap")):
                    continue
                body = "lg(\"0.0.i\", %s) %s %s %s, %s" % (init, t0, op, t1, b1 if n == 2 else b1 + ", " + b2)
                fmt = 'ev0("end.99.z"); format!("{:?}", x)'
                rb = "let x = join! { %s };\n%s" % (body, fmt)
                mb = "let x = %s! { %s };\n%s" % (mac, body, fmt)
                out.append(TProg("opstep/%s/%s/%d" % (mac, label, n), rb, mb, depths=(2, 2) if n == 2 else (2, 2, 3), maxd=fp.MAXD, meta={"macro": mac, "dsl": "%s! { %s }" % (mac, body), "ref": "join! { %s }" % body}))
    return out


NESTED2 = """{mac}! {{
    lg("0.0.i", 1) ~-> |v: i32| {{ ev("0.1.f", &v); v + 1 }},
    lg("1.0.i", 2) -> |v: i32| {{
        let (a, b) = {mac}! {{
            lg("10.x.i", v),
            lg("11.x.i", v + 1) ~-> |w: i32| {{ ev("11.y.f", &w); w * 2 }}
        }};
        a + b
    }} ~-> |v: i32| {{ ev("1.1.f", &v); v + 1 }}
}}"""
NESTED2_REF = """{
    let a0 = lg("0.0.i", 1);
    let a1 = (|v: i32| {
        let a = lg("10.x.i", v);
        let b = lg("11.x.i", v + 1);
        let b = (|w: i32| { ev("11.y.f", &w); w * 2 })(b);
        a + b
    })(lg("1.0.i", 2));
    let a0 = (|v: i32| { ev("0.1.f", &v); v + 1 })(a0);
    let a1 = (|v: i32| { ev("1.1.f", &v); v + 1 })(a1);
    (a0, a1)
}"""
NESTED2_NAMES = [
    ("0.", "_join_0"), ("1.", "_join_1"),
    ("10.", "_join_1_join_0"), ("11.x", "_join_1_join_1"), ("11.y", "_join_1"),
]

NESTED3 = """{mac}! {{
    lg("0.0.i", 1),
    lg("1.0.i", 2) -> |v: i32| {{
        let (a, b) = {mac}! {{
            lg("10.x.i", v) -> |u: i32| {{
                let (c, d) = {mac}! {{ lg("100.x.i", u), lg("101.x.i", u + 5) }};
                c + d
            }},
            lg("11.x.i", v + 1)
        }};
        a + b
    }}
}}"""
NESTED3_REF = """{
    let a0 = lg("0.0.i", 1);
    let a1 = (|v: i32| {
        let a = (|u: i32| { let c = lg("100.x.i", u); let d = lg("101.x.i", u + 5); c + d })(lg("10.x.i", v));
        let b = lg("11.x.i", v + 1);
        a + b
    })(lg("1.0.i", 2));
    (a0, a1)
}"""
NESTED3_NAMES = [
    ("0.", "_join_0"), ("1.", "_join_1"), ("10.", "_join_1_join_0"), ("11.", "_join_1_join_1"),
    ("100.", "_join_1_join_0_join_0"), ("101.", "_join_1_join_0_join_1"),
]


LONG_CALLER = "wątek-" + "é€" * 100  # 206 characters, 506 bytes


def threads_set(tier):
    """C08: flat profiles x 3 caller names with thread-identity checks; nested spawn macros (names only)."""
    out = []
    callers = ("main", "w7", None)
    # a caller whose name is long and not ASCII (2- and 3-byte characters, 206 characters / 506 bytes): the composed thread name is the whole name
    # ... and a caller whose name is present but EMPTY (the prefix is then the empty string: `_join_0`)
    callers_long = callers + (LONG_CALLER, "")
    profs = list(fp.profiles(3, 3))
    if tier != "quick":
        profs += list(fp.profiles(4, 2, nmin=4)) + [(1, 2, 3, 4), (4, 4), (4, 1, 4), (2, 2, 2, 2, 2)]
    else:
        profs += [(1, 1, 1, 1), (2, 1, 2, 1), (1, 2, 1, 2), (2, 2, 1, 1), (4, 2), (1, 4)]
    for ds in profs:
        for mac in SPAWN4:
            if tier == "quick" and len(ds) == 3 and max(ds) == 3 and mac in ("spawn", "try_spawn") and ds.count(3) > 1:
                continue
            p = fp.build(mac, ds, init_ev=True, flavour="Opt" if mac.startswith("try") else None)
            out.append(tprog("%s/%s" % (mac, fp.pname(ds)), p, ds, callers=callers_long if (len(ds) == 2 or tier != "quick") else callers, check_threads=True))
            if len(ds) in (2, 3) and (tier != "quick" or max(ds) <= 2):
                # step 0 = initial value + an instant operator with a block operand: the initial value is still evaluated by the
                # branch's thread
                p = fp.build(mac, ds, init_ev=True, cap0=True, flavour="Opt" if mac.startswith("try") else None)
                out.append(tprog("%s/%s/cap0" % (mac, fp.pname(ds)), p, ds, callers=("main",), check_threads=True))
            if len(ds) in (2, 3) and (tier != "quick" or max(ds) <= 2):
                # initial values written as if / match / unsafe / loop expressions (one form per branch): evaluated by the branch's thread
                p = fp.build(mac, ds, init_ev=True, init_form=("if", "match", "unsafe", "loop")[len(ds) % 2:][:3], flavour="Opt" if mac.startswith("try") else None)
                out.append(tprog("%s/%s/initforms" % (mac, fp.pname(ds)), p, ds, callers=("main",), check_threads=True))
            if len(ds) >= 2 and max(ds) >= 2 and (tier != "quick" or len(ds) == 2 or ds in ((1, 2, 2), (2, 1, 3))):
                # every later step is a single deferred operator whose operand is a block capture: the callback the block yields
                # still runs on the branch's own thread
                p = fp.build(mac, ds, init_ev=True, capstep=True, flavour="Res" if mac.startswith("try") else None)
                out.append(tprog("%s/%s/capstep" % (mac, fp.pname(ds)), p, ds, callers=("main", None), check_threads=True))
    return out + nested_set(tier)


NESTED4 = """{mac}! {{
    lg("0.0.i", 1),
    lg("1.0.i", 2) ~-> |v: i32| {{
        ev("1.1.f", &v);
        let (a, b) = {mac}! {{
            lg("10.x.i", v),
            lg("11.x.i", v + 1) ~-> |w: i32| {{ ev("11.y.f", &w); w * 2 }}
        }};
        a + b
    }}
}}"""
NESTED4_REF = """{
    let a0 = lg("0.0.i", 1);
    let a1 = lg("1.0.i", 2);
    let a1 = (|v: i32| {
        ev("1.1.f", &v);
        let a = lg("10.x.i", v);
        let b = lg("11.x.i", v + 1);
        let b = (|w: i32| { ev("11.y.f", &w); w * 2 })(b);
        a + b
    })(a1);
    (a0, a1)
}"""
# the lone second step of branch 1 runs on the CALLER: the inner macro's threads are the caller's `_join_0` / `_join_1`, its own lone
# second step runs on the caller again
NESTED4_NAMES = [("0.", "_join_0"), ("1.0", "_join_1"), ("1.1", ""), ("10.", "_join_0"), ("11.x", "_join_1"), ("11.y", "")]


def nested_set(tier):
    """thread-spawning macros nested in operands of each other: thread names compose, and who evaluates a step does not depend on the
    nesting (C08 names, C17 nesting)"""
    out = []
    callers = ("main", "w7", None)
    for mac in ("join_spawn", "spawn"):
        fmt = '\nev0("end.99.z"); format!("{:?}", x)'
        out.append(TProg("nested2/%s" % mac, "let x = %s;%s" % (NESTED2_REF, fmt), "let x = %s;%s" % (NESTED2.format(mac=mac), fmt),
                         callers=callers, names=NESTED2_NAMES, meta={"macro": mac, "dsl": NESTED2.format(mac=mac), "ref": NESTED2_REF}))
        out.append(TProg("nested4/%s" % mac, "let x = %s;%s" % (NESTED4_REF, fmt), "let x = %s;%s" % (NESTED4.format(mac=mac), fmt),
                         callers=callers, names=NESTED4_NAMES, meta={"macro": mac, "dsl": NESTED4.format(mac=mac), "ref": NESTED4_REF}))
        if tier != "quick" or mac == "join_spawn":
            out.append(TProg("nested3/%s" % mac, "let x = %s;%s" % (NESTED3_REF, fmt), "let x = %s;%s" % (NESTED3.format(mac=mac), fmt),
                             callers=callers, names=NESTED3_NAMES, meta={"macro": mac, "dsl": NESTED3.format(mac=mac), "ref": NESTED3_REF}))
    return out


def panic_set(tier):
    """C18: every single panic position (x every failure subset for small try programs) x every schedule."""
    out = []
    dmax = 2 if tier == "quick" else 3
    profs = list(fp.profiles(3, dmax))
    if tier == "quick":
        profs += [ds for ds in fp.profiles(2, 3) if max(ds) == 3] + [(1, 1, 1, 1), (2, 1, 1, 2)]
    else:
        profs += list(fp.profiles(4, 2, nmin=4))
    for ds in profs:
        for mac in SPAWN4:
            is_try = mac.startswith("try")
            p = fp.build(mac, ds, init_ev=True, rich=(sum(ds) <= 4), flavour="Res" if is_try else None)
            slots = fp.fail_slots(ds)
            sub = slots if (is_try and sum(ds) <= 5) else ()
            out.append(tprog("%s/%s" % (mac, fp.pname(ds)), p, ds, panics=slots, sub=sub))
    return out


def tryfail_set(tier):
    """C05/C06 under every schedule: try spawn kinds, every failure subset."""
    out = []
    for ds in fp.profiles(3, 2 if tier == "quick" else 3):
        if sum(ds) > (6 if tier == "quick" else 7):
            continue
        for mac in ("try_join_spawn", "try_spawn"):
            for fl in ("Res", "Opt"):
                if mac == "try_spawn" and fl == "Opt" and tier == "quick":
                    continue
                p = fp.build(mac, ds, init_ev=True, rich=(len(ds) <= 2), flavour=fl)
                # thread identity / liveness is judged on failing rows too: a failing branch must not let the caller
                # continue while siblings of the step are still running
                out.append(tprog("%s/%s/%s" % (mac, fl, fp.pname(ds)), p, ds, sub=fp.fail_slots(ds), check_threads=True, callers=("main", None) if len(ds) == 2 else ("main",)))
    return out


def all_sets(tier):
    return {"c03": barrier_set(tier) + opstep_set(tier), "c08": threads_set(tier), "c17": nested_set(tier), "c18": panic_set(tier), "c05": tryfail_set(tier)}
