"""DSL program model, DSL renderer and the reference semantics R (DESIGN §2.1, §2.2).

R is a deliberately naive second implementation of the *documented* meaning of a program, for the
sequential case only, emitted as straight-line Rust:

  * `value OP expr` is the README's method call (kinds.ref_apply);
  * `X >>> inner <<< rest` is `.x(|v| v inner) rest`; wrappers still open at a step/branch end close there;
  * per step: (1) every block operand of the step, branch-then-position order, bound once;
    (2) the step chain of every active branch in branch order, continuing from that branch's previous value;
    (3) try macros: the first (lowest-numbered) active branch whose value is None/Err decides the result;
  * `let name` names the branch's latest completed step value; result tuple in branch order; handlers.
"""
from .kinds import ref_apply

TRY = {"try_join", "try_join_spawn", "try_spawn", "try_join_async", "try_join_async_spawn", "try_async_spawn"}
ASYNC = {"join_async", "try_join_async", "join_async_spawn", "try_join_async_spawn", "async_spawn", "try_async_spawn"}
SPAWN = {"join_spawn", "try_join_spawn", "spawn", "try_spawn", "join_async_spawn", "try_join_async_spawn", "async_spawn", "try_async_spawn"}
ALL_MACROS = [
    "join", "try_join", "join_spawn", "try_join_spawn", "spawn", "try_spawn",
    "join_async", "try_join_async", "join_async_spawn", "try_join_async_spawn", "async_spawn", "try_async_spawn",
]
LONG_NAME = {"spawn": "join_spawn", "try_spawn": "try_join_spawn", "async_spawn": "join_async_spawn", "try_async_spawn": "try_join_async_spawn"}
PLAIN_OF = {
    "join_spawn": "join", "spawn": "join", "try_join_spawn": "try_join", "try_spawn": "try_join",
    "join_async_spawn": "join_async", "async_spawn": "join_async", "try_join_async_spawn": "try_join_async", "try_async_spawn": "try_join_async",
}


class Operand:
    __slots__ = ("text", "block", "label")

    def __init__(self, text, block=False, label=None):
        self.text = text
        self.block = block
        self.label = label  # None | "'name": a LABELLED block expression `'name: { .. }` is a block operand like any other

    def dsl(self):
        if self.block and self.label:
            return "%s: { %s }" % (self.label, self.text)
        return "{ %s }" % self.text if self.block else self.text


def O(text):
    return Operand(text)


def B(text, label=None):
    return Operand(text, block=True, label=label)


class Op:
    __slots__ = ("op", "operands", "deferred")

    def __init__(self, op, operands=(), deferred=False):
        self.op = op
        self.operands = [o if isinstance(o, Operand) else Operand(o) for o in operands]
        self.deferred = deferred


class Wrap:
    __slots__ = ("op", "inner", "deferred", "close")

    def __init__(self, op, inner, deferred=False, close=True):
        self.op = op
        self.inner = list(inner)
        self.deferred = deferred
        self.close = close  # explicit `<<<`; False: left open to the end of the step


class Branch:
    __slots__ = ("init", "items", "let")

    def __init__(self, init, items=(), let=None):
        self.init = init if isinstance(init, Operand) else Operand(init)
        self.items = list(items)
        self.let = let  # None | (name, is_mut)


class Program:
    __slots__ = ("macro", "branches", "handler", "options", "flavour")

    def __init__(self, macro, branches, handler=None, options=(), flavour=None):
        self.macro = macro
        self.branches = list(branches)
        self.handler = handler  # None | (kind, expr_text, position)   position: index among branches where it is written (None = last)
        self.options = list(options)
        self.flavour = flavour  # for try macros: "Opt" | "Res"

    @property
    def is_try(self):
        return self.macro in TRY

    @property
    def is_async(self):
        return self.macro in ASYNC

    @property
    def is_spawn(self):
        return self.macro in SPAWN


# ---------------------------------------------------------------------------------------------
# DSL rendering
# ---------------------------------------------------------------------------------------------
def _items_dsl(items):
    s = ""
    for it in items:
        d = "~" if it.deferred else ""
        if isinstance(it, Op):
            s += " %s%s" % (d, it.op)
            if it.operands:
                s += " " + ", ".join(o.dsl() for o in it.operands)
        else:
            s += " %s%s >>>" % (d, it.op)
            s += _items_dsl(it.inner)
            if it.close:
                s += " <<<"
    return s


def branch_dsl(b):
    s = ""
    if b.let:
        s += "let %s%s = " % ("mut " if b.let[1] else "", b.let[0])
    s += b.init.dsl()
    s += _items_dsl(b.items)
    return s


def program_dsl(p):
    parts = [branch_dsl(b) for b in p.branches]
    if p.handler:
        kind, text = p.handler[0], p.handler[1]
        pos = p.handler[2] if len(p.handler) > 2 and p.handler[2] is not None else len(parts)
        parts.insert(pos, "%s => %s" % (kind, text))
    opts = "".join("%s " % o for o in p.options)
    return "%s! { %s%s }" % (p.macro, opts, ", ".join(parts))


# ---------------------------------------------------------------------------------------------
# steps
# ---------------------------------------------------------------------------------------------
def split_steps(items):
    """top-level items -> list of steps (each a list of items)"""
    steps = [[]]
    for it in items:
        if it.deferred:
            steps.append([])
        steps[-1].append(it)
    return steps


def depth_of(b):
    return len(split_steps(b.items))


# ---------------------------------------------------------------------------------------------
# reference semantics R
# ---------------------------------------------------------------------------------------------
class _Caps:
    def __init__(self, b, k):
        self.b = b
        self.k = k
        self.n = 0
        self.defs = []

    def operand(self, o):
        if not o.block:
            return o.text
        name = "__c%d_%d_%d" % (self.b, self.k, self.n)
        self.n += 1
        self.defs.append("let %s = %s{ %s };" % (name, "%s: " % o.label if o.label else "", o.text))
        return name


def _ref_items(prev, items, caps, is_async, wdepth=0):
    for it in items:
        if isinstance(it, Op):
            ops = [caps.operand(o) for o in it.operands]
            prev = ref_apply(prev, it.op, ops, is_async)
        else:
            w = "__w%d" % wdepth
            inner = _ref_items(w, it.inner, caps, is_async, wdepth + 1)
            prev = ref_apply(prev, it.op, ["|%s| %s" % (w, inner)], is_async)
    return prev


def program_ref(p, anyof=False, joiner=None, fc="futures"):
    """Rust expression text (a block) that evaluates the program per R. For async macros the text is an
    `async move { .. }` block (run it with block_on). With anyof=True (async try macros) the block yields a
    String: the Debug form of the success value, or `ANYOF[f1|f2|..]` listing every branch that fails in
    the earliest failing step (any of them may be returned by an async try macro).
    joiner: None | {"when": "before"|"after", "reverse": bool}: a logging custom joiner — one event `j.x.a:<arity>` per
    step with more than one active branch, before/after the branch chains, which run in reverse order when reverse."""
    n = len(p.branches)
    steps = [split_steps(b.items) for b in p.branches]
    depths = [len(s) for s in steps]
    maxd = max(depths)
    is_try, is_async = p.is_try, p.is_async
    aw = ".await" if is_async else ""
    lines = []
    var = []
    for i, b in enumerate(p.branches):
        var.append(b.let[0] if b.let else "__b%d" % i)
    if p.handler:
        lines.append("let __h = %s;" % p.handler[1])
    ok = "Some" if p.flavour == "Opt" else "Ok"
    isfail = "is_none" if p.flavour == "Opt" else "is_err"
    for k in range(maxd):
        active = [i for i in range(n) if depths[i] > k]
        caps_all = []
        exprs = []
        for i in active:
            caps = _Caps(i, k)
            b = p.branches[i]
            if k == 0:
                prev = "(%s)" % caps.operand(b.init)
            else:
                prev = "%s::future::ready(%s)" % (fc, var[i]) if is_async else "{ %s }" % var[i]
            e = _ref_items(prev, steps[i][k], caps, is_async)
            caps_all.extend(caps.defs)
            exprs.append((i, e))
        lines.extend(caps_all)
        multi = len(active) > 1
        if joiner and multi and joiner["when"] == "before":
            lines.append("ev(\"j.x.a\", &%dusize);" % len(active))
        if joiner and multi and joiner.get("reverse"):
            exprs = list(reversed(exprs))
        for i, e in exprs:
            b = p.branches[i]
            mut = "mut " if (b.let and b.let[1]) else ""
            lines.append("let %s%s = %s%s;" % (mut, var[i], e, aw))
        if joiner and multi and joiner["when"] == "after":
            lines.append("ev(\"j.x.a\", &%dusize);" % len(active))
        if is_try and anyof:
            cond = " || ".join("%s.%s()" % (var[i], isfail) for i in active)
            pushes = " ".join(
                "if %s.%s() { __f.push(format!(\"{:?}\", %s.as_ref().map(|_| ()))); }" % (var[i], isfail, var[i]) for i in active
            )
            lines.append("if %s { let mut __f: Vec<String> = Vec::new(); %s break 'r format!(\"ANYOF[{}]\", __f.join(\"|\")); }" % (cond, pushes))
        elif is_try:
            for i in active:
                lines.append("if %s.%s() { break 'r %s.map(|_| unreachable!()); }" % (var[i], isfail, var[i]))
    if is_try:
        for i in range(n):
            if p.flavour == "Opt":
                lines.append("let __u%d = match %s { Some(x) => x, None => unreachable!() };" % (i, var[i]))
            else:
                lines.append("let __u%d = match %s { Ok(x) => x, Err(_) => unreachable!() };" % (i, var[i]))
        vals = ["__u%d" % i for i in range(n)]
    else:
        vals = list(var)
    tup = vals[0] if n == 1 else "(%s)" % ", ".join(vals)
    if p.handler:
        kind = p.handler[0]
        call = "(__h)(%s)" % ", ".join(vals)
        if kind == "then":
            fin = call + aw
        elif kind == "map":
            fin = "%s(%s)" % (ok, call)
        else:  # and_then
            fin = call + aw
    else:
        fin = "%s(%s)" % (ok, tup) if is_try else tup
    if anyof:
        if fin.startswith("Ok("):
            fin = "Ok::<_, i32>(" + fin[3:]
        fin = "format!(\"{:?}\", %s)" % fin
    lines.append(fin)
    body = "'r: {\n    %s\n}" % "\n    ".join(lines)
    if is_async:
        return "async move { use %s::{FutureExt, TryFutureExt, StreamExt, TryStreamExt}; %s }" % (fc, body)
    return body
