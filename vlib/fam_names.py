"""C17 families: dense programs (large and two-digit indices everywhere) and nested macros."""
from . import dsl
from .dsl import ALL_MACROS, B, Branch, O, Op, Program
from .e2 import Prog

# ---------------------------------------------------------------------------------------------
# (a) dense programs
# ---------------------------------------------------------------------------------------------
def dense(mac, nb, na, steps=2):
    """nb branches x na actions per step x `steps` steps, a block capture with a distinct constant on EVERY action"""
    is_try = mac in dsl.TRY
    is_async = mac in dsl.ASYNC
    brs = []
    for b in range(nb):
        items = []
        for s in range(steps):
            for a in range(na):
                c = 1 + b * 97 + a * 7 + s * 3
                site = "%d.%d.a%d" % (b, s, a)
                res = "v + k"
                op = "|>" if (is_try or is_async) else "->"
                if is_try and is_async:
                    op, res = "=>", "ready(Ok::<i64, i32>(v + k))"
                body = "ev0(\"c.%d.%d.%d\"); let k = %d; move |v: i64| { ev(\"%s\", &v); %s }" % (s, b, a, c, site, res)
                items.append(Op(op, [B(body)], deferred=(s > 0 and a == 0)))
        init = "%d_i64" % (b * 1000)
        if is_try:
            init = "Ok::<i64, i32>(%s)" % init
        if is_async:
            init = "ready(%s)" % init
        brs.append(Branch(O(init), items))
    return Program(mac, brs, flavour="Res" if is_try else None)


def dense_resmix(nb, na, steps=2):
    """join! over Result<i64, i64> values: Process (`|>`) and Err (`!>`, `<=`) operators alternate over (branch, action), every
    operand a captured i64 -> i64 closure with a distinct constant, so a clash between a Process and an Err binding is silent"""
    brs = []
    for b in range(nb):
        items = []
        for s in range(steps):
            for a in range(na):
                c = 1 + b * 97 + a * 7 + s * 3
                site = "%d.%d.a%d" % (b, s, a)
                kind = (2 * a + b) % 3  # asymmetric in (branch, action): mirrored positions carry different operator classes
                if kind == 0:
                    op, body = "|>", "move |v: i64| { ev(\"%s\", &v); v + k }" % site
                elif kind == 1:
                    op, body = "!>", "move |v: i64| { ev(\"%s\", &v); v + k }" % site
                else:
                    op, body = "<=", "move |v: i64| { ev(\"%s\", &v); if v %% 2 == 0 { Ok::<i64, i64>(v + k) } else { Err(v + k) } }" % site
                items.append(Op(op, [B("ev0(\"c.%d.%d.%d\"); let k = %d_i64; %s" % (s, b, a, c, body))], deferred=(s > 0 and a == 0)))
        init = "Ok::<i64, i64>(%d)" % (b * 1000) if b % 2 == 0 else "Err::<i64, i64>(%d)" % (b * 1000 + 1)
        brs.append(Branch(O(init), items))
    return Program("join", brs)


def wrapper_dense(mac, nb, nw, steps=2):
    """every branch: per step `nw` sibling wrappers, each with block captures at the same relative positions (distinct constants,
    same closure signature), one of them nested in an outer wrapper, plus captures outside the wrappers"""
    from .dsl import Wrap

    is_try = mac in dsl.TRY
    brs = []
    for b in range(nb):
        items = []
        for s in range(steps):
            first = True
            for w in range(nw):
                def cap(pos, lvl):
                    c = 1 + b * 997 + s * 331 + w * 37 + pos * 5 + lvl
                    return B("ev0(\"c.%d.%d.w%d.%d.%d\"); let k = %d_i64; move |v: i64| { ev(\"%d.%d.w%d.%d.%d\", &v); v + k }" % (s, b, w, pos, lvl, c, b, s, w, pos, lvl))
                inner = [Op("|>", [cap(0, 0)]), Op("|>", [cap(1, 0)])]
                if w == 1:
                    # an outer wrapper around two sibling wrappers (values are Option<Option<Option<i64>>>)
                    item = Wrap("|>", [Wrap("|>", [Op("|>", [cap(0, 1)])], close=True), Wrap("|>", [Op("|>", [cap(0, 2)])], close=True)], close=True, deferred=(s > 0 and first))
                else:
                    item = Wrap("|>", [Wrap("|>", inner, close=True)], close=True, deferred=(s > 0 and first))
                first = False
                items.append(item)
            # a capture outside any wrapper, at an absolute position that equals a relative one inside
            c = 7 + b * 13 + s
            items.append(Op("|>", [B("ev0(\"c.%d.%d.out\"); let k = %d_i64; move |v: Option<Option<i64>>| { ev(\"%d.%d.out\", &v); v.map(|x| x.map(|y| y + k)) }" % (s, b, c, b, s))]))
        init = "Some(Some(Some(%d_i64)))" % (b * 100000)
        brs.append(Branch(O(init), items))
    return Program(mac, brs, flavour="Opt" if is_try else None)


def fold_branch(b):
    """fold / try_fold with both operands captured (operand index 0 and 1) next to other captures"""
    return Branch(
        O("vec![1i64, 2, 3].into_iter()"),
        [
            Op("|>", [B('ev0("c.0.%d.1"); let k = %d; move |v: i64| v + k' % (b, 10 + b))]),
            Op("^@", [B('ev0("c.0.%d.2a"); %d_i64' % (b, 100 + b)), B('ev0("c.0.%d.2b"); let k = %d; move |acc: i64, v: i64| acc * 2 + v + k' % (b, 3 + b))]),
            Op("->", [B('ev0("c.0.%d.3"); let k = %d; move |v: i64| v + k' % (b, 1000 + b))]),
        ],
    )


def run_bodies(p, d, r, n):
    pat = "(%s)" % ", ".join("a%d" % i for i in range(n)) if n > 1 else "a0"
    arr = "vec![%s]" % ", ".join("a%d" % i for i in range(n))
    if p.is_try:
        fm = "\nformat!(\"{:?}\", x.map(|%s| %s))" % (pat, arr)
    else:
        fm = "\nlet %s = x; format!(\"{:?}\", %s)" % (pat, arr)
    if p.is_async:
        rb = "let x = futures::executor::block_on(%s);%s" % (r, fm)
        mb = ("let x = trt().block_on(%s);%s" if p.is_spawn else "let x = futures::executor::block_on(%s);%s") % (d, fm)
    else:
        rb = "let x = %s;%s" % (r, fm)
        mb = "let x = %s;%s" % (d, fm)
    return rb, mb


def dense_programs(tier):
    progs = []
    sizes = [(2, 11), (2, 12), (11, 2), (12, 2), (11, 11), (12, 12), (11, 12), (12, 11), (2, 2)]
    # 17 / 24 actions per step and 17 / 24 branches (thresholds at 16): small in the other dimension, all three macro kinds
    sizes += [(2, 17), (2, 24), (17, 2), (24, 2)]
    if tier != "quick":
        sizes += [(24, 12), (12, 24), (24, 24)]
    for nb, na in sizes:
        for mac in ("join", "try_join", "join_async") if (nb * na <= 144) else ("join", "try_join"):
            if mac == "join_async" and tier == "quick" and nb * na > 24 and min(nb, na) > 2:
                continue
            p = dense(mac, nb, na)
            d, r = dsl.program_dsl(p), dsl.program_ref(p)
            rb, mb = run_bodies(p, d, r, nb)
            progs.append(Prog("dense/%s/%dx%d" % (mac, nb, na), rb, mb, [[0]], "Full" if mac != "join_async" else "ProjSteps", meta={"macro": mac, "dsl": d[:400] + " ...", "ref": ""}))
    for nb, na in [(2, 3), (3, 3), (4, 4), (11, 3), (3, 11), (12, 12)]:
        p = dense_resmix(nb, na)
        d, r = dsl.program_dsl(p), dsl.program_ref(p)
        rb, mb = run_bodies(p, d, r, nb)
        progs.append(Prog("resmix/%dx%d" % (nb, na), rb, mb, [[0]], "Full", meta={"macro": "join", "dsl": d[:400] + " ...", "ref": ""}))
    for mac in ("join", "try_join", "join_spawn"):
        for nb, nw in [(1, 2), (2, 2), (2, 3), (3, 4)]:
            p = wrapper_dense(mac, nb, nw)
            d, r = dsl.program_dsl(p), dsl.program_ref(p)
            fm = '\nformat!("{:?}", x)'
            progs.append(Prog("wdense/%s/%dx%d" % (mac, nb, nw), "let x = %s;%s" % (r, fm), "let x = %s;%s" % (d, fm), [[0]], "Full" if mac != "join_spawn" else "ProjSteps", meta={"macro": mac, "dsl": d[:400] + " ...", "ref": ""}))
    # many branches in the thread-spawning kinds (`__j10` vs `__j1`), 13 and 24 branches, two steps
    for nb in (13, 24):
        for mac in ("join_spawn", "try_join_spawn", "spawn"):
            p = dense(mac, nb, 1)
            d, r = dsl.program_dsl(p), dsl.program_ref(p)
            rb, mb = run_bodies(p, d, r, nb)
            progs.append(Prog("dense/%s/%dx1" % (mac, nb), rb, mb, [[0]], "ProjSteps", meta={"macro": mac, "dsl": d[:400] + " ...", "ref": ""}))
    # 12-step single branch and 13-step two-branch (`__sr10`, `__sr11`)
    for mac in ("join", "try_join", "join_async", "join_spawn"):
        for nb in (1, 2):
            p = dense(mac, nb, 1, steps=13)
            d, r = dsl.program_dsl(p), dsl.program_ref(p)
            rb, mb = run_bodies(p, d, r, nb)
            progs.append(Prog("steps13/%s/%d" % (mac, nb), rb, mb, [[0]], "ProjSteps" if mac != "join" and mac != "try_join" else "Full", meta={"macro": mac, "dsl": d[:400] + " ...", "ref": ""}))
    # fold captures, 12 branches
    p = Program("join", [fold_branch(b) for b in range(12)])
    d, r = dsl.program_dsl(p), dsl.program_ref(p)
    rb, mb = run_bodies(p, d, r, 12)
    progs.append(Prog("dense/fold12", rb, mb, [[0]], "Full", meta={"macro": "join", "dsl": d[:400] + " ...", "ref": ""}))
    return progs


def handler_operand_nesting():
    """a macro nested as the handler OPERAND (it yields the handler closure): evaluated where a handler operand is evaluated — once,
    before step 0 of the outer macro — in sequential, try and thread-spawning outer macros"""
    progs = []
    b0 = 'lg("0.0.i", 1) -> |v: i32| { ev("0.0.f", &v); v }'
    b1 = 'lg("1.0.i", 2) ~-> |v: i32| { ev("1.1.f", &v); v + 1 }'
    inner = 'join! { lg("i0.x.i", 10) -> |k: i32| { ev("i0.x.f", &k); k }, then => |k: i32| move |a: i32, b: i32| { ev("h.9.h", &(a, b, k)); a + b + k } }'
    inner_r = '{ let k = (|k: i32| { ev("i0.x.f", &k); k })(lg("i0.x.i", 10)); (|k: i32| move |a: i32, b: i32| { ev("h.9.h", &(a, b, k)); a + b + k })(k) }'
    fmt = '\nformat!("{:?}", x)'
    r0 = '(|v: i32| { ev("0.0.f", &v); v })(lg("0.0.i", 1))'
    r1 = '(|v: i32| { ev("1.1.f", &v); v + 1 })(b)'
    for mac in ("join", "join_spawn", "spawn"):
        d = "%s! { %s, %s, then => %s }" % (mac, b0, b1, inner)
        r = "{ let h = %s; let a = %s; let b = lg(\"1.0.i\", 2); let b = %s; h(a, b) }" % (inner_r, r0, r1)
        progs.append(Prog("hexprnest/%s" % mac, "let x = %s;%s" % (r, fmt), "let x = %s;%s" % (d, fmt), [[0]], "Full" if mac == "join" else "ProjSteps", meta={"macro": mac, "dsl": d, "ref": r}))
    # try outer (map handler), inner try macro that yields Some(closure); branch 1 may fail: the handler operand is evaluated regardless
    tb0 = 'lg("0.0.i", st_o(0, 1)) |> |v: i32| { ev("0.0.f", &v); v }'
    tb1 = 'lg("1.0.i", st_o(4, 2)) ~|> |v: i32| { ev("1.1.f", &v); v + 1 }'
    tinner = 'try_join! { lg("i0.x.i", Some(10)) |> |k: i32| { ev("i0.x.f", &k); k }, map => |k: i32| move |a: i32, b: i32| { ev("h.9.h", &(a, b, k)); a + b + k } }.unwrap()'
    tinner_r = '{ let k = lg("i0.x.i", Some(10)).map(|k: i32| { ev("i0.x.f", &k); k }); k.map(|k: i32| move |a: i32, b: i32| { ev("h.9.h", &(a, b, k)); a + b + k }).unwrap() }'
    d = "try_join! { %s, %s, map => %s }" % (tb0, tb1, tinner)
    r = """'r: { let h = %s;
    let a = lg("0.0.i", st_o(0, 1)).map(|v: i32| { ev("0.0.f", &v); v });
    let b = lg("1.0.i", st_o(4, 2));
    if a.is_none() || b.is_none() { break 'r None; }
    let b = b.map(|v: i32| { ev("1.1.f", &v); v + 1 });
    match (a, b) { (Some(a), Some(b)) => Some(h(a, b)), _ => None } }""" % tinner_r
    progs.append(Prog("hexprnest/try_join", "let x = %s;%s" % (r, fmt), "let x = %s;%s" % (d, fmt), [[0]], "Full", meta={"macro": "try_join", "dsl": d, "ref": r}, sub=[0, 4]))
    return progs


def sibling_programs(tier):
    """the SAME deep, capture-rich try branch (error-side callback, capture, non-closure operand and inspection in every step) alone,
    next to 1 / 2 / 11 shallow siblings in front of it, behind it and around it, and next to an equally deep and a deeper one; every
    subset of its steps fails: what the branch does and yields must not depend on how many siblings are alive beside it"""
    from . import fam_profiles as fp

    progs = []
    layouts = [(3,), (4,), (1, 3), (3, 1), (1, 4), (2, 4), (4, 2), (3, 3), (3, 4), (1, 1, 3), (1, 3, 1), (3, 1, 1)]
    layouts += [(1,) * 11 + (3,), (3,) + (1,) * 11, (1,) * 5 + (3,) + (1,) * 6, (2,) * 11 + (4,), (1,) * 10 + (2, 3)]
    for ds in layouts:
        deep = max(range(len(ds)), key=lambda b: (ds[b], b))
        for mac in ("try_join", "try_join_spawn", "try_join_async"):
            if len(ds) > 3 and mac != "try_join" and tier == "quick":
                continue
            if mac == "try_join_async" and max(ds) > 3:
                continue
            for fl in (("Res", "Opt") if mac == "try_join" else ("Res",)):
                p = fp.build(mac, ds, flavour=fl, rich=True)
                sub = [fp.slot(deep, k) for k in range(ds[deep])]
                progs.append(fp.to_prog("siblings/%s/%s/%s" % (mac, fl, fp.pname(ds) if len(ds) <= 4 else "%dx-%d-%d" % (len(ds), deep, sum(ds))), p, [[0]], sub=sub))
    return progs


# ---------------------------------------------------------------------------------------------
# (b) nesting: inner macro as operand value / inside a block capture / inside a handler
# ---------------------------------------------------------------------------------------------
def inner_texts(mac, pre="i", operand_extra=None, cap_extra=None):
    """(dsl text, reference text, extractor) of a small two-branch, two-step inner program whose sites start with `pre`;
    operand_extra / cap_extra: None or a pair (dsl text, reference text) of an i32 expression added to the initial value of
    branch 1 resp. bound inside the block capture of branch 1 (depth-3 nesting)"""
    is_try, is_async = mac in dsl.TRY, mac in dsl.ASYNC
    if operand_extra or cap_extra or pre != "i":
        def one(k):
            oe = " + %s" % operand_extra[k] if operand_extra else ""
            ce = "let q = %s; " % cap_extra[k] if cap_extra else "let q = 0; "
            def val(e):
                if is_try:
                    e = "Ok::<i32, i32>(%s)" % e
                return "ready(%s)" % e if is_async else e
            op = "|>" if (is_try or is_async) else "->"
            w = (lambda e: e)
            if is_try and is_async:
                op, w = "=>", (lambda e: "ready(Ok::<i32, i32>(%s))" % e)
            return Program(
                mac,
                [
                    Branch(O(val('lg("%s0.0.i", 7)' % pre)), [Op(op, [O('|v: i32| { ev("%s0.1.f", &v); %s }' % (pre, w("v + 1")))], deferred=True)]),
                    Branch(O(val('lg("%s1.0.i", 30%s)' % (pre, oe))), [Op(op, [B('ev0("%sc.1.1.0"); %smove |v: i32| { ev("%s1.1.f", &v); %s }' % (pre, ce, pre, w("v * 2 + q")))], deferred=True)]),
                ],
                flavour="Res" if is_try else None,
            )
        return dsl.program_dsl(one(0)), dsl.program_ref(one(1)), ("xr" if is_try else "x2")
    def val(e):
        if is_try:
            e = "Ok::<i32, i32>(%s)" % e
        return "ready(%s)" % e if is_async else e
    op = "|>" if (is_try or is_async) else "->"
    w = (lambda e: e)
    if is_try and is_async:
        op, w = "=>", (lambda e: "ready(Ok::<i32, i32>(%s))" % e)
    p = Program(
        mac,
        [
            Branch(O(val('lg("i0.0.i", 7)')), [Op(op, [O('|v: i32| { ev("i0.1.f", &v); %s }' % w("v + 1"))], deferred=True)]),
            Branch(O(val('lg("i1.0.i", 30)')), [Op(op, [B('ev0("ic.1.1.0"); |v: i32| { ev("i1.1.f", &v); %s }' % w("v * 2"))], deferred=True)]),
        ],
        flavour="Res" if is_try else None,
    )
    return dsl.program_dsl(p), dsl.program_ref(p), ("xr" if is_try else "x2")


def outer_program(mac, operand_extra, cap_extra, handler_extra):
    """operand_extra etc.: None or Rust expression text of type i32 that is added at that position"""
    is_try, is_async = mac in dsl.TRY, mac in dsl.ASYNC
    def val(e):
        if is_try:
            e = "Ok::<i32, i32>(%s)" % e
        return "ready(%s)" % e if is_async else e
    op = "|>" if (is_try or is_async) else "->"
    w = (lambda e: e)
    if is_try and is_async:
        op, w = "=>", (lambda e: "ready(Ok::<i32, i32>(%s))" % e)
    cap_q = "let q = %s; " % cap_extra if cap_extra else "let q = 0; "
    cap = B('ev0("c.1.0.0"); %smove |v: i32| { ev("0.1.f", &v); %s }' % (cap_q, w("v + 1 + q")))
    opv = 'lg("1.0.i", 2%s)' % (" + %s" % operand_extra if operand_extra else "")
    hk = "map" if is_try else "then"
    hbody = 'ev("h.9.h", &(a, b)); a + b%s' % (" + %s" % handler_extra if handler_extra else "")
    if is_async and not is_try:
        hbody = "async move { %s }" % hbody
    p = Program(
        mac,
        [
            Branch(O(val('lg("0.0.i", 1)')), [Op(op, [cap], deferred=True)]),
            Branch(O(val(opv)), [Op(op, [O('|v: i32| { ev("1.1.f", &v); %s }' % w("v + 1"))], deferred=True)]),
        ],
        handler=(hk, "|a: i32, b: i32| { %s }" % hbody, None),
        flavour="Res" if is_try else None,
    )
    return p


def nesting_programs(tier):
    progs = []
    for outer in ALL_MACROS:
        for inner in ALL_MACROS:
            o_async, i_async = outer in dsl.ASYNC, inner in dsl.ASYNC
            i_tokio = inner in dsl.ASYNC and inner in dsl.SPAWN
            o_threads = outer in dsl.SPAWN and not o_async
            idsl, iref, ext = inner_texts(inner)
            # the inner macro call itself as initial operand of a branch (directly followed by an operator)
            if o_async == i_async:
                ext_op = "|>" if (o_async or outer in dsl.TRY) else "->"
                po = outer_program(outer, None, None, None)
                def direct(text):
                    is_try_o = outer in dsl.TRY
                    ops = [Op("|>" if o_async else "->", [O(ext)])]
                    if is_try_o and o_async:
                        ops.append(Op("->", [O("|f| async move { Ok::<i32, i32>(f.await) }")]))
                    elif is_try_o:
                        ops.append(Op("->", [O("Ok::<i32, i32>")]))
                    return Branch(O(text), ops + po.branches[1].items)
                pm = outer_program(outer, None, None, None)
                pr = outer_program(outer, None, None, None)
                pm.branches[1] = direct(idsl)
                pr.branches[1] = direct(iref)
                d = dsl.program_dsl(pm)
                r = dsl.program_ref(pr)
                fm = '\nformat!("{:?}", x)'
                if o_async:
                    rb, mb = "let x = bo(%s);%s" % (r, fm), "let x = bo(%s);%s" % (d, fm)
                else:
                    rb, mb = "let x = %s;%s" % (r, fm), "let x = %s;%s" % (d, fm)
                if (i_tokio or (o_async and outer in dsl.SPAWN)):
                    mb = "let __rt = trt_mt(); let __g = __rt.enter();\n" + mb
                if not (i_tokio and o_threads):
                    plain = outer in ("join", "try_join") and inner in ("join", "try_join")
                    progs.append(Prog("nest/%s/%s/direct" % (outer, inner), rb, mb, [[0]], "Full" if plain else "Proj", meta={"macro": outer, "dsl": d, "ref": r}))
            for pos in ("operand", "capture", "handler"):
                # tokio::spawn needs the runtime context of the executing thread: a branch thread of a thread-spawning
                # outer macro has none (the operand is evaluated there)
                if i_tokio and o_threads and pos == "operand":
                    continue
                def wrap(text):
                    # value of type i32 computed from the inner macro, in a synchronous context
                    return "%s(bo(%s))" % (ext, text) if i_async else "%s(%s)" % (ext, text)
                km = {"operand": None, "capture": None, "handler": None}
                kr = dict(km)
                km[pos] = wrap(idsl)
                kr[pos] = wrap(iref)
                pm = outer_program(outer, km["operand"], km["capture"], km["handler"])
                pr = outer_program(outer, kr["operand"], kr["capture"], kr["handler"])
                d = dsl.program_dsl(pm)
                r = dsl.program_ref(pr)
                fm = '\nformat!("{:?}", x)'
                tokio_needed = i_tokio or (o_async and outer in dsl.SPAWN)
                if o_async:
                    rb = "let x = bo(%s);%s" % (r, fm)
                    mb = "let x = bo(%s);%s" % (d, fm)
                else:
                    rb = "let x = %s;%s" % (r, fm)
                    mb = "let x = %s;%s" % (d, fm)
                if tokio_needed:
                    mb = "let __rt = trt_mt(); let __g = __rt.enter();\n" + mb
                    if i_tokio:
                        # the reference of an async-spawn inner macro does not spawn: no runtime needed
                        pass
                progs.append(Prog("nest/%s/%s/%s" % (outer, inner, pos), rb, mb, [[0]], "Proj", meta={"macro": outer, "dsl": d, "ref": r}))
    return progs


def nesting3_programs(tier):
    """depth 3: every ordered TRIPLE of the 12 macros — the innermost macro inside the initial operand / inside a block capture of
    the middle macro, which sits inside an operand / block capture / handler of the outer one. quick: all 1728 triples with the
    position pair (capture, operand) and, for the sequential / thread-spawning / async representatives as middle macro, all six
    position pairs; thorough: all triples x all six position pairs."""
    progs = []
    reps_mid = ("try_join", "spawn", "join_async", "try_async_spawn")
    for outer in ALL_MACROS:
        for mid in ALL_MACROS:
            for inn in ALL_MACROS:
                for pos1 in ("operand", "capture", "handler"):
                    for pos2 in ("operand", "capture"):
                        if tier == "quick" and not ((pos1, pos2) == ("capture", "operand") or (mid in reps_mid and inn in reps_mid)):
                            continue
                        # which thread evaluates what: tokio::spawn needs the runtime context of the executing thread
                        ctx = True  # the harness thread has entered a runtime whenever a task-spawning macro takes part
                        ok = True
                        for mac, pos in ((outer, pos1), (mid, pos2), (inn, None)):
                            tok = mac in dsl.ASYNC and mac in dsl.SPAWN
                            thr = mac in dsl.SPAWN and mac not in dsl.ASYNC
                            if tok and not ctx:
                                ok = False
                            if pos == "operand":
                                ctx = True if tok else (False if thr else ctx)
                        if not ok:
                            continue
                        jd, jr, jext = inner_texts(inn, pre="j")
                        def wrapj(text):
                            return "%s(bo(%s))" % (jext, text) if inn in dsl.ASYNC else "%s(%s)" % (jext, text)
                        pair = (wrapj(jd), wrapj(jr))
                        md, mr, mext = inner_texts(mid, pre="i", operand_extra=pair if pos2 == "operand" else None, cap_extra=pair if pos2 == "capture" else None)
                        def wrapm(text):
                            return "%s(bo(%s))" % (mext, text) if mid in dsl.ASYNC else "%s(%s)" % (mext, text)
                        km = {"operand": None, "capture": None, "handler": None}
                        kr = dict(km)
                        km[pos1] = wrapm(md)
                        kr[pos1] = wrapm(mr)
                        pm = outer_program(outer, km["operand"], km["capture"], km["handler"])
                        pr = outer_program(outer, kr["operand"], kr["capture"], kr["handler"])
                        d = dsl.program_dsl(pm)
                        r = dsl.program_ref(pr)
                        fm = '\nformat!("{:?}", x)'
                        if outer in dsl.ASYNC:
                            rb, mb = "let x = bo(%s);%s" % (r, fm), "let x = bo(%s);%s" % (d, fm)
                        else:
                            rb, mb = "let x = %s;%s" % (r, fm), "let x = %s;%s" % (d, fm)
                        if any(m in dsl.ASYNC and m in dsl.SPAWN for m in (outer, mid, inn)):
                            mb = "let __rt = trt_mt(); let __g = __rt.enter();\n" + mb
                        progs.append(Prog("nest3/%s/%s/%s/%s-%s" % (outer, mid, inn, pos1, pos2), rb, mb, [[0]], "Proj", meta={"macro": outer, "dsl": d, "ref": r}))
    return progs


HOSTILE = "#[allow(dead_code)] mod std {} #[allow(dead_code)] mod core {} #[allow(dead_code)] mod alloc {} #[allow(dead_code)] mod tokio {} #[allow(dead_code)] mod futures {} "


def hostile_scope_programs():
    """every macro invoked in a scope that has its own items called `std`, `core`, `alloc`, `tokio`, `futures` (a facade module as
    no_std-compatible crates have): the expansion names its runtime items by absolute paths, so its meaning does not depend on what
    the caller's scope calls `std`. Two-branch two-step programs with a handler, and 2 x 2 dense capture programs."""
    progs = []
    for mac in ALL_MACROS:
        for kind, p in (("outer", outer_program(mac, None, None, None)), ("dense", dense(mac, 2, 2))):
            d = dsl.program_dsl(p)
            r = dsl.program_ref(p)
            fm = '\nformat!("{:?}", x)'
            if mac in dsl.ASYNC:
                rb, mb = "let x = bo(%s);%s" % (r, fm), "let x = bo({ %s%s });%s" % (HOSTILE, d, fm)
            else:
                rb, mb = "let x = %s;%s" % (r, fm), "let x = { %s%s };%s" % (HOSTILE, d, fm)
            if mac in dsl.ASYNC and mac in dsl.SPAWN:
                mb = "let __rt = trt_mt(); let __g = __rt.enter();\n" + mb
            progs.append(Prog("hostile/%s/%s" % (mac, kind), rb, mb, [[0]], "Proj", meta={"macro": mac, "dsl": "{ %s%s }" % (HOSTILE, d), "ref": r}))
    return progs


NEST_HEADER = """use futures::future::ready;
fn trt() -> tokio::runtime::Runtime { tokio::runtime::Builder::new_current_thread().build().unwrap() }
fn trt_mt() -> tokio::runtime::Runtime { tokio::runtime::Builder::new_multi_thread().worker_threads(3).build().unwrap() }
"""
