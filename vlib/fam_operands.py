"""C01: operand corpus x every operator (x every follower) and the initial-operand corpus."""
from . import kinds as K
from .e2 import Prog
from .fam_chains import body, chain_texts

PRE = """
const KK: i32 = 5;
fn inc1(v: i32) -> i32 { v + 1 }
fn gid<T>(v: T) -> T { v }
fn mk_add(k: i32) -> impl Fn(i32) -> i32 { move |v| v + k }
fn is_pos(v: &i32) -> bool { *v > 1 }
fn chk(v: i32) -> Option<i32> { if v > 1 { Some(v) } else { None } }
fn chkr(v: i32) -> Result<i32, i32> { if v > 1 { Ok(v) } else { Err(v) } }
fn call1<F: Fn(i32) -> i32>(f: F) -> i32 { f(1) }
fn fold2(acc: i32, v: i32) -> i32 { acc * 3 + v }
"""

# operand forms per role (every one valid Rust without a top-level split point)
F = [  # i32 -> i32
    "|v: i32| v + 1", "|v| v + 1", "move |v: i32| v + KK", "inc1", "gid::<i32>", "(|v: i32| v + 1)", "mk_add(3)",
    "|v: i32| if v <= 3 { v + 1 } else { v - 1 }", "|v: i32| -> i32 { v >> 1 }", "|v: i32| -> i32 { if v <= 3 { v } else { v - 1 } }",
    "{ |v: i32| v + 2 }", "join! { |v: i32| v + 1 }", "|v: i32| (v..v + 3).len() as i32", "|v: i32| match v { 1 => 2, _ => v }", "|v: i32| [v, v + 1][1]",
]
P = ["|v: &i32| *v > 1", "|v| *v > 1", "is_pos", "|v: &i32| -> bool { *v <= 3 }", "(|v: &i32| v.p())", "{ |v: &i32| *v < 3 }", "|v: &i32| if *v <= 2 { true } else { false }"]
O = ["|v: i32| if v > 1 { Some(v) } else { None }", "chk", "|v: i32| -> Option<i32> { Some(v) }", "|v| Some(v)", "{ chk }", "|v: i32| (v > 1).then(|| v)"]
OR = ["|v: i32| if v > 1 { Ok::<i32, i32>(v) } else { Err(v) }", "chkr", "|v: i32| -> Result<i32, i32> { Ok(v) }", "{ chkr }"]
E = ["|e: i32| e + 1", "|e| e + 1", "inc1", "|e: i32| -> i32 { e << 1 }", "{ |e: i32| e - 1 }"]
OE = ["|e: i32| if e > 5 { Ok::<i32, i32>(e) } else { Err(e) }", "chkr", "|e: i32| -> Result<i32, i32> { Err(e) }"]
FOLD = ["|acc: i32, v: i32| acc * 3 + v", "fold2", "|acc: i32, v: i32| -> i32 { acc + v }", "{ |acc: i32, v: i32| acc - v }", "|acc, v| acc + v"]
INS_O = ["|v: &Option<i32>| { ev(\"0.q\", v); }", "{ |v: &Option<i32>| { ev(\"0.q\", v); } }", "|v: &Option<i32>| -> () { ev(\"0.q\", v) }"]

OPT, RES, IT = K.Opt(K.INT), K.Res(K.INT), K.Iter(K.INT)
# (start kind, init, rows, operator, operand lists (product), result kind)
SITES = [
    (OPT, "opt(0)", [[2], [1], [0]], "|>", [F], OPT),
    (RES, "res(0)", [[2], [1], [-7]], "|>", [F], RES),
    (IT, "vc(0).into_iter()", [[0], [2], [3]], "|>", [F], IT),
    (K.INT, "int(0)", [[2], [1]], "->", [[f for f in F if not f.startswith("|v|")]], K.INT),
    (OPT, "opt(0)", [[2], [1], [0]], "=>", [O], OPT),
    (RES, "res(0)", [[2], [1], [-7]], "=>", [OR], RES),
    (OPT, "opt(0)", [[2], [1], [0]], "?>", [P], OPT),
    (IT, "vc(0).into_iter()", [[0], [2], [3]], "?>", [P], IT),
    (IT, "vc(0).into_iter()", [[0], [2], [3]], "?@", [P], OPT),
    (IT, "vc(0).into_iter()", [[0], [2], [3]], "?|>", [O], IT),
    (IT, "vc(0).into_iter()", [[0], [2], [3]], "?|>@", [O], OPT),
    (RES, "res(0)", [[2], [-1], [-7]], "!>", [E], RES),
    (RES, "res(0)", [[2], [-1], [-7]], "<=", [OE], RES),
    (IT, "vc(0).into_iter()", [[0], [2], [3]], "^@", [["0i32", "{ 10i32 }", "KK", "(1 + 1)"], FOLD], K.INT),
    (OPT, "opt(0)", [[2], [0]], "??", [INS_O], OPT),
    (OPT, "opt(0)", [[2], [0]], "<|", [["Some(9)", "chk(4)", "{ Some(8) }", "if KK <= 3 { None } else { Some(1) }", "None::<i32>"]], OPT),
]


def operand_programs(tier):
    import itertools

    progs = []
    n = 0
    for start, init, rows, op, lists, out in SITES:
        followers = [None] + [r for r in K.sync_rows(out, "0.f")]
        for combo in itertools.product(*lists):
            for fo in followers:
                if fo is not None and tier == "quick" and fo.pinned:
                    continue
                n += 1
                first = K.Row("corpus", op, list(combo), out)
                chain = [first] + ([fo] if fo is not None else [])
                fk = chain[-1].out
                pinned = chain[-1].pinned
                dsl, ref = chain_texts(init, chain)
                # block operands are hoisted in the macro; with a single branch and a single step the documented chain evaluates
                # them in the same order (operand expressions have no side effects here), so the plain chain is the reference
                for mac in ("join", "try_join"):
                    if mac == "try_join" and fk[0] not in ("Opt", "Res"):
                        continue
                    if mac == "try_join" and tier == "quick" and fo is not None:
                        continue
                    progs.append(Prog("ops/%s/%d" % (mac, n), body(fk, pinned, ref), body(fk, pinned, "%s! { %s }" % (mac, dsl)), rows, "Full", meta={"macro": mac, "dsl": "%s! { %s }" % (mac, dsl), "ref": ref}))
    return progs


INITS = [
    # (initial operand, follow-up DSL, documented form)
    ("-a", "..abs()", "(-a).abs()"),
    ("a - 3", "..abs()", "(a - 3).abs()"),
    ("a as i64", "..abs()", "(a as i64).abs()"),
    ("a as u8", "..count_ones()", "(a as u8).count_ones()"),
    ("&a", "..clone()", "(&a).clone()"),
    ("!(a > 2)", "..then(|| 7)", "(!(a > 2)).then(|| 7)"),
    ("a < 3", "..then(|| 7)", "(a < 3).then(|| 7)"),
    ("a == 2", "..then(|| 1)", "(a == 2).then(|| 1)"),
    ("a * 2 + 1", "-> |v: i32| v + 1", "(|v: i32| v + 1)(a * 2 + 1)"),
    ("-a", "-> |v: i32| v.abs()", "(|v: i32| v.abs())(-a)"),
    ("-a", "?? |v: &i32| { ev(\"0.q\", v); } ..abs()", "{ let x = -a; (|v: &i32| { ev(\"0.q\", v); })(&x); x }.abs()"),
    ("if a > 2 { Some(a) } else { None }", "|> |v: i32| v + 1", "(if a > 2 { Some(a) } else { None }).map(|v: i32| v + 1)"),
    ("match a { 2 => Some(1), _ => None }", "|> |v: i32| v + 1 ..unwrap_or(0)", "(match a { 2 => Some(1), _ => None }).map(|v: i32| v + 1).unwrap_or(0)"),
    ("*(&a)", "..abs()", "(*(&a)).abs()"),
    ("a.clone()", "..abs()", "(a.clone()).abs()"),
    ("(a, a + 1)", "..1", "((a, a + 1)).1"),
    ("[a, a + 1]", "..len()", "([a, a + 1]).len()"),
    ("|x: i32| x + a", "..clone() -> call1", "(call1)((|x: i32| x + a).clone())"),
    ("(a..a + 3)", "..rev() |> |v: i32| v * 2 =>[] Vec<i32>", "((a..a + 3)).rev().map(|v: i32| v * 2).collect::<Vec<i32>>()"),
    ("a | 4", "..count_ones()", "(a | 4).count_ones()"),
    ("a & 1", "..count_ones()", "(a & 1).count_ones()"),
    ("a >> 1", "..abs()", "(a >> 1).abs()"),
    ("a << 1", "..abs()", "(a << 1).abs()"),
    ("a % 3", "..pow(2)", "(a % 3).pow(2)"),
    ("-a", ">. abs()", "(-a).abs()"),
    ("Some(a)", "|> |v: i32| v + 1", "(Some(a)).map(|v: i32| v + 1)"),
    ("a", "", "(a)"),
    ("-a", "", "(-a)"),
    ("a - 3", "~..abs()", "(a - 3).abs()"),
    ("-a", "~-> |v: i32| v.abs() ~..pow(2)", "(|v: i32| v.abs())(-a).pow(2)"),
]


def initial_programs():
    progs = []
    for i, (init, follow, ref) in enumerate(INITS):
        for variant in ("single", "second-branch", "let"):
            if variant == "single":
                d = "join! { %s %s }" % (init, follow)
                r = ref
            elif variant == "second-branch":
                d = "join! { 1u8, %s %s }" % (init, follow)
                r = "(1u8, %s)" % ref
            else:
                d = "join! { let nm = %s %s }" % (init, follow)
                r = ref
            pro = "let a = int(0);\n"
            progs.append(Prog("init/%d/%s" % (i, variant), pro + "let x = %s;\nformat!(\"{:?}\", x)" % r, pro + "let x = %s;\nformat!(\"{:?}\", x)" % d, [[2], [3], [-4]], "Full", meta={"macro": "join", "dsl": d, "ref": r}))
    return progs


# the same operator with a block operand in two (and three) branches, distinct constants: the operands must not be confused
TWINS = [
    ("opt({i})", "|>", "{{ |v: i32| v + {c} }}", ".map({{ |v: i32| v + {c} }})"),
    ("opt({i})", "=>", "{{ |v: i32| Some(v + {c}) }}", ".and_then({{ |v: i32| Some(v + {c}) }})"),
    ("opt({i})", "?>", "{{ |v: &i32| *v != {c} }}", ".filter({{ |v: &i32| *v != {c} }})"),
    ("opt({i})", "<|", "{{ Some({c}) }}", ".or({{ Some({c}) }})"),
    ("opt({i})", "<=", "{{ || Some({c}) }}", ".or_else({{ || Some({c}) }})"),
    ("res({i})", "<|", "{{ Ok::<i32, i32>({c}) }}", ".or({{ Ok::<i32, i32>({c}) }})"),
    ("res({i})", "<=", "{{ |e: i32| Err::<i32, i32>(e + {c}) }}", ".or_else({{ |e: i32| Err::<i32, i32>(e + {c}) }})"),
    ("res({i})", "!>", "{{ |e: i32| e + {c} }}", ".map_err({{ |e: i32| e + {c} }})"),
    ("res({i})", "|>", "{{ |v: i32| v + {c} }}", ".map({{ |v: i32| v + {c} }})"),
    ("vc({i}).into_iter()", "?|>", "{{ |v: i32| Some(v + {c}) }} =>[] Vec<i32>", ".filter_map({{ |v: i32| Some(v + {c}) }}).collect::<Vec<i32>>()"),
    ("vc({i}).into_iter()", "?@", "{{ |v: &i32| *v + {c} > 101 }}", ".find({{ |v: &i32| *v + {c} > 101 }})"),
    ("vc({i}).into_iter()", "?|>@", "{{ |v: i32| if v > 1 {{ Some(v + {c}) }} else {{ None }} }}", ".find_map({{ |v: i32| if v > 1 {{ Some(v + {c}) }} else {{ None }} }})"),
    ("vc({i}).into_iter()", "^@", "{{ {c} }}, {{ |a: i32, v: i32| a + v + {c} }}", ".fold({{ {c} }}, {{ |a: i32, v: i32| a + v + {c} }})"),
    ("vc({i}).into_iter()", ">@>", "{{ vec![{c}] }} =>[] Vec<i32>", ".chain({{ vec![{c}] }}).collect::<Vec<i32>>()"),
    ("vc({i}).into_iter()", ">^>", "{{ vec![{c}, {c}] }} =>[] Vec<(i32, i32)>", ".zip({{ vec![{c}, {c}] }}).collect::<Vec<(i32, i32)>>()"),
    ("int({i})", "->", "{{ |v: i32| v + {c} }}", None),
]


def twin_programs():
    progs = []
    consts = [100, 2000, 30000]
    for t, (init, op, operand, ref) in enumerate(TWINS):
        for n in (2, 3):
            for deferred in (False, True):
                brs, refs = [], []
                for i in range(n):
                    c = consts[i]
                    ini = init.format(i=i)
                    d = "%s %s%s %s" % (ini, "~" if deferred else "", op, operand.format(c=c))
                    if ref is None:
                        r = "(%s)(%s)" % (operand.split(" =>[]")[0].format(c=c), ini)
                    else:
                        r = "(%s)%s" % (ini, ref.format(c=c))
                    brs.append(d)
                    refs.append(r)
                d = "join! { %s }" % ", ".join(brs)
                r = "(%s)" % ", ".join(refs)
                rows = [[2, 3, 1], [0, -5, 2], [1, 2, 3]]
                progs.append(Prog("twin/%d/%d/%d" % (t, n, deferred), "let x = %s;\nformat!(\"{:?}\", x)" % r, "let x = %s;\nformat!(\"{:?}\", x)" % d, rows, "Full", meta={"macro": "join", "dsl": d, "ref": r}))
    return progs


def question_mark_programs():
    """operands and initial values that END in the postfix `?` operator (inside a closure returning Option), followed by every kind of
    thing that can follow an operand: an instant / deferred operator, a member access, the comma, a handler, the end"""
    progs = []
    rows = [[1, 2, 3], [0, 2, 3], [4, 0, 3], [5, 6, 0]]
    cases = [
        # (dsl body of the macro, reference expression)
        ("opt(0)? -> |v: i32| { ev(\"0.0.f\", &v); v + 1 }, opt(1)?",
         "((|v: i32| { ev(\"0.0.f\", &v); v + 1 })(opt(0)?), opt(1)?)"),
        # (`? >.` would be the operator `?>` followed by `.`: white space is not part of a token stream — junction premise)
        ("opt(0)? ..wrapping_add(7), opt(1)? ..wrapping_mul(2) ..wrapping_sub(1), opt(2)?",
         "((opt(0)?).wrapping_add(7), (opt(1)?).wrapping_mul(2).wrapping_sub(1), opt(2)?)"),
        ("Some(opt(0)?) |> |v: i32| v + 1 <| Some(opt(1)?) |> |v: i32| v * 2, Some(opt(2)?)",
         "(Some(opt(0)?).map(|v: i32| v + 1).or(Some(opt(1)?)).map(|v: i32| v * 2), Some(opt(2)?))"),
        ("opt(0)? ~-> |v: i32| { ev(\"0.1.f\", &v); v + 1 }, opt(1)? ~-> |v: i32| { ev(\"1.1.f\", &v); v * 2 }",
         "{ let a = opt(0)?; let b = opt(1)?; let a = (|v: i32| { ev(\"0.1.f\", &v); v + 1 })(a); let b = (|v: i32| { ev(\"1.1.f\", &v); v * 2 })(b); (a, b) }"),
        ("opt(0)?, opt(1)?, then => |a: i32, b: i32| a * 100 + b",
         "{ let a = opt(0)?; let b = opt(1)?; a * 100 + b }"),
        ("let p = opt(0)?, opt(1)? ~-> { let q = p; move |v: i32| v + q }",
         "{ let p = opt(0)?; let b = opt(1)?; let c = { let q = p; move |v: i32| v + q }; (p, c(b)) }"),
        ("Some(1) => |v: i32| Some(v + opt(0)?) ?? |o: &Option<i32>| { ev(\"0.0.q\", o); }, opt(1)?",
         "({ let x = Some(1).and_then(|v: i32| Some(v + opt(0)?)); (|o: &Option<i32>| { ev(\"0.0.q\", o); })(&x); x }, opt(1)?)"),
    ]
    for ci, (body, ref) in enumerate(cases):
        # (sequential macros only: inside a thread-spawning macro `?` would return from the branch's thread closure)
        for mac in ("join",):
            d = "%s! { %s }" % (mac, body)
            mb = "let x = (|| -> Option<String> { let r = %s; Some(format!(\"{:?}\", r)) })();\nformat!(\"{:?}\", x)" % d
            rb = "let x = (|| -> Option<String> { let r = %s; Some(format!(\"{:?}\", r)) })();\nformat!(\"{:?}\", x)" % ref
            progs.append(Prog("qmark/%d/%s" % (ci, mac), rb, mb, rows, "Full" if mac == "join" else "Proj", meta={"macro": mac, "dsl": d, "ref": ref}))
    return progs


def handler_lookalike_programs():
    """operands that ARE identifiers / paths / fields called `then`, `map`, `and_then`, directly followed by `=>`: inside a chain they
    are operands of the operator in front of them (a handler stands where a branch would start)"""
    progs = []
    rows = [[1, 2], [0, 3], [5, 0]]
    pro = ("let then = |v: i32| Some(v + 1); let map = |v: i32| if v > 1 { Some(v * 3) } else { None }; let and_then = |v: i32| Some(v - 1);\n"
           "struct Ops { and_then: fn(i32) -> Option<i32>, then: fn(i32) -> Option<i32> } let ops = Ops { and_then: |v| Some(v + 10), then: |v| Some(v + 20) };\n")
    cases = [
        ("join! { opt(0) => then => |v: i32| Some(v * 2), opt(1) => map => and_then }",
         "(opt(0).and_then(then).and_then(|v: i32| Some(v * 2)), opt(1).and_then(map).and_then(and_then))"),
        ("try_join! { opt(0) => ops.and_then => |v: i32| Some(v * 2), opt(1) => ops.then => then, map => |a: i32, b: i32| a * 1000 + b }",
         "{ let a = opt(0).and_then(ops.and_then).and_then(|v: i32| Some(v * 2)); let b = opt(1).and_then(ops.then).and_then(then); match (a, b) { (Some(a), Some(b)) => Some(a * 1000 + b), _ => None } }"),
        ("join! { opt(0) => and_then => map => then ~=> then, opt(1) }",
         "(opt(0).and_then(and_then).and_then(map).and_then(then).and_then(then), opt(1))"),
    ]
    for ci, (d, r) in enumerate(cases):
        fm = '\nformat!("{:?}", x)'
        progs.append(Prog("handlerlike/%d" % ci, pro + "let x = %s;%s" % (r, fm), pro + "let x = %s;%s" % (d, fm), rows, "Full", meta={"macro": "join", "dsl": d, "ref": r}))
    return progs
