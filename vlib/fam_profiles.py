"""Depth-profile families: n branches with d_i steps each (C03-C06, C12, C13 and the E3 engines reuse them)."""
import itertools

from . import dsl
from .dsl import B, Branch, O, Op, Program
from .e2 import Prog

MAXD = 4
OFF = 63  # input slot holding a value offset (gives non-try programs more than one outcome)


def slot(b, k):
    v = b * MAXD + k
    return v if v < 60 else v + 4  # 60..63 are reserved (61 is vrt's PANIC_SLOT, 63 the offset slot); the input table has 512 slots


def payload(b, k):
    return 1000 + 10 * b + k


def profiles(nmax, dmax, nmin=1):
    for n in range(nmin, nmax + 1):
        for ds in itertools.product(range(1, dmax + 1), repeat=n):
            yield ds


def build(macro, depths, flavour=None, handler=None, lets=(), rich=False, readers=(), hpos=None, wrap=False, init_ev=False, gated=None, failop=None, hexpr_ev=False, err_after=False, capstep=False, err_defer_cap=False, init_form=None, cap0=False, estart=None, errcap=False, init_block=False, recover=False):
    """lets: iterable of (branch, is_mut); readers: iterable of (reader_branch, step>=1) where the capture of
    that branch-step snapshots every visible name; rich: every step >= 1 carries a capture, an error-side
    callback and a non-closure operand (C06); failop (Option flavour, sync): how a step fails — None (`=>` and_then) | "filter"
    (`?>`) | "zip" (`>^>`) | "flatten" (`|> .. ^^>`): operators that are also Option methods producing None; wrap: every step >= 1 is opened by a deferred wrapper
    (`~=> >>> -> f <<<`; non-try sync programs then carry Option values and use `~|> >>>`)."""
    is_try = macro in dsl.TRY
    is_async = macro in dsl.ASYNC
    if is_try and flavour is None:
        flavour = "Res"
    if is_async and is_try:
        assert flavour == "Res"
    lets = dict(lets)
    readers = set(readers)
    n = len(depths)
    if gated:
        return build_gated(macro, depths, flavour, handler, gated, hexpr_ev=hexpr_ev)

    def name(b):
        return "n%d" % b

    def outcome(b, k, val):
        if not is_try:
            e = "st(%d, %s)" % (slot(b, k), val)
        elif flavour == "Res":
            e = "st_r(%d, %d, %s)" % (slot(b, k), payload(b, k), val)
        else:
            e = "st_o(%d, %s)" % (slot(b, k), val)
        return "ready(%s)" % e if (is_async and is_try) else e

    def init(b):
        e = "100 * %d + int(%d)" % (b, OFF)
        if not is_try:
            x = "st(%d, %s)" % (slot(b, 0), e)
            if init_ev:
                x = "lg(\"%d.0.i\", %s)" % (b, x)
            if wrap and not is_async:
                x = "Some(%s)" % x
        elif flavour == "Res":
            x = "st_r(%d, %d, %s)" % (slot(b, 0), payload(b, 0), e)
        else:
            x = "st_o(%d, %s)" % (slot(b, 0), e)
        if init_ev and is_try:
            x = "lg(\"%d.0.i\", %s)" % (b, x)
        # block-LIKE initial expressions (if / match / unsafe / loop) are ordinary expressions, not block captures: they are evaluated
        # where a branch's initial value is evaluated (in the thread-spawning macros: by the branch's thread)
        forms = {"if": "if int(%d) > -1000 { %%s } else { unreachable!() }" % OFF, "match": "match int(%d) { -1000 => unreachable!(), _ => %%s }" % OFF,
                 "unsafe": "unsafe { %s }", "loop": "loop { break %s; }"}
        if init_form:
            x = forms[init_form[b % len(init_form)]] % x
        return "ready(%s)" % x if is_async else x

    branches = []
    for b, d in enumerate(depths):
        items = []
        if cap0:
            # step 0 continues with an INSTANT operator whose operand is a block capture: the capture is evaluated up front by the
            # caller, the initial value (and the operator) still belong to the branch (its thread / task)
            op0 = "|>" if (is_try or is_async or wrap) else "->"
            items.append(Op(op0, [B("ev0(\"c.0.%d.0\"); |v: i32| v" % b)]))
        for k in range(1, d):
            cb = "|v: i32| { ev(\"%d.%d.f\", &v); %s }" % (b, k, outcome(b, k, "v + 1"))
            snap = ""
            if (b, k) in readers:
                # a `let mut` name is read through a mutable reborrow: the binding must be mutable in EVERY step (and macro kind)
                vis = [("&*(&mut %s)" if lets[x] else "&%s") % name(x) for x in sorted(lets)]
                if vis:
                    snap = " ev(\"c.%d.%d.s\", &format!(\"{:?}\", (%s,)));" % (k, b, ", ".join(vis))
            # a hoisted capture used inside a wrapper closure is borrowed by that closure; a tokio task must be
            # 'static, so this shape is not well typed in the task-spawning macros (DESIGN §3.14)
            # capstep: the whole step is ONE deferred operator whose operand is a block capture (nothing else in the step)
            use_cap = (rich or bool(snap) or capstep) and not (wrap and is_async and macro in dsl.SPAWN)
            if use_cap:
                main = B("ev0(\"c.%d.%d.1\");%s move %s" % (k, b, snap, cb))
            else:
                main = O(cb)
            if wrap:
                wop = "=>" if is_try else "|>"
                items.append(dsl.Wrap(wop, [Op("->", [main])], deferred=True, close=True))
                if rich:
                    items.append(Op("->", [O("lgf(\"%d.%d.o\")" % (b, k))]))
            elif not is_try:
                op = "|>" if is_async else "->"
                items.append(Op(op, [main], deferred=True))
                if rich:
                    items.append(Op("->", [O("lgf(\"%d.%d.o\")" % (b, k))]))
            elif flavour == "Res" and estart and not is_async:
                # the step STARTS with a deferred error-side operator (`~!>`, `~<=`, `~<|`) with a visible callback / operand; the
                # success-side callback follows as an instant operator
                if estart == "!>":
                    items.append(Op("!>", [O("|e: i32| { ev(\"%d.%d.e\", &e); e + 5000 }" % (b, k))], deferred=True))
                elif estart == "<=":
                    items.append(Op("<=", [O("|e: i32| { ev(\"%d.%d.e\", &e); Err::<i32, i32>(e + 5000) }" % (b, k))], deferred=True))
                else:
                    items.append(Op("<|", [O("lg(\"%d.%d.o\", Err::<i32, i32>(%d))" % (b, k, 7000 + 10 * b + k))], deferred=True))
                items.append(Op("=>", [main]))
            elif flavour == "Res" and err_defer_cap:
                # the step STARTS with a deferred error-side operator whose operand is a block capture (the reading one); the
                # success-side callback follows as an instant operator
                ecap = B("ev0(\"c.%d.%d.0\");%s move |e: i32| Err::<i32, i32>(e + 5000)" % (k, b, snap))
                items.append(Op("<=", [ecap], deferred=True))
                items.append(Op("=>", [O(cb)]))
            elif flavour == "Res":
                if rich:
                    err = "Err::<i32, i32>(e + 5000)"
                    if is_async:
                        err = "ready(%s)" % err
                    ecb = "|e: i32| { ev(\"%d.%d.e\", &e); %s }" % (b, k, err)
                    # errcap: the error-side callback of the step's FIRST action is a block capture too (a callable of the same
                    # signature as the success-side capture on the second action: a name clash between them is silent at compile time)
                    items.append(Op("<=", [B("ev0(\"c.%d.%d.0\"); move %s" % (k, b, ecb)) if (errcap and not is_async) else O(ecb)], deferred=True))
                    items.append(Op("=>", [main]))
                    items.append(Op("->", [O("lgf(\"%d.%d.o\")" % (b, k))]))
                else:
                    items.append(Op("=>", [main], deferred=True))
                if err_after:
                    # an error-side operator with a BLOCK operand right after the capture of the same step
                    items.append(Op("!>", [B("ev0(\"c.%d.%d.2\"); |e: i32| e" % (k, b))]))
            elif failop:
                fs = slot(b, k)
                if recover:
                    # the step STARTS with a deferred `<|` that would revive a failed branch — it never gets the chance: a failure of
                    # the previous step has aborted the macro by then
                    items.append(Op("<|", [O("lg(\"%d.%d.o\", Some(7000))" % (b, k))], deferred=True))
                if failop == "filter":
                    items.append(Op("?>", [O("|v: &i32| { ev(\"%d.%d.f\", v); act(%d) == 0 }" % (b, k, fs))], deferred=not recover))
                    items.append(Op("|>", [O("|v: i32| v + 1")]))
                elif failop == "zip":
                    items.append(Op(">^>", [B("ev0(\"c.%d.%d.z\"); if act(%d) == 0 { Some(1) } else { None }" % (k, b, fs))], deferred=not recover))
                    items.append(Op("|>", [O("|t: (i32, i32)| t.0 + t.1")]))
                else:
                    items.append(Op("|>", [O("|v: i32| { ev(\"%d.%d.f\", &v); if act(%d) == 0 { Some(v + 1) } else { None } }" % (b, k, fs))], deferred=not recover))
                    items.append(Op("^^>", []))
                if rich:
                    # (no `->`, `=>`, `..` in these steps: the failure must come from the Option method alone)
                    items.append(Op("??", [O("|v: &Option<i32>| { ev(\"%d.%d.q\", v); }" % (b, k))]))
            else:
                if rich:
                    items.append(Op("<|", [O("lg(\"%d.%d.o\", None)" % (b, k))], deferred=True))
                    items.append(Op("=>", [main]))
                    items.append(Op("??", [O("|v: &Option<i32>| { ev(\"%d.%d.q\", v); }" % (b, k))]))
                else:
                    items.append(Op("=>", [main], deferred=True))
        let = (name(b), lets[b]) if b in lets else None
        if init_block:
            # the initial value is written as a block capture (evaluated up front, by the caller) — the branch's steps are what they are
            branches.append(Branch(B("ev0(\"c.0.%d.9\"); %s" % (b, init(b))), items, let=let))
        else:
            branches.append(Branch(O(init(b)), items, let=let))
    h = None
    if handler:
        args = ", ".join("a%d: %s" % (i, "Option<i32>" if (wrap and not is_try and not is_async) else "i32") for i in range(n))
        vec = "vec![%s]" % ", ".join("a%d" % i for i in range(n))
        log = "ev(\"h.9.h\", &%s);" % vec
        if handler == "then":
            body = "async move { %s }" % vec if is_async else vec
        elif handler == "map":
            body = vec
        else:
            okv = ("Some(%s)" if flavour == "Opt" else "Ok::<Vec<i32>, i32>(%s)") % vec
            body = "ready(%s)" % okv if is_async else okv
        htext = "|%s| { %s %s }" % (args, log, body)
        if hexpr_ev:
            # the handler OPERAND itself has a visible evaluation (its own trace key `hx`: how often, not when)
            htext = "{ ev0(\"hx.0.e\"); %s }" % htext
        h = (handler, htext, hpos)
    return Program(macro, branches, handler=h, flavour=flavour)


def gate_id(b, k):
    return slot(b, k)


def gate2_id(b, k):
    return 32 + slot(b, k)


def build_gated(macro, depths, flavour, handler, mode, hexpr_ev=False):
    """async profile programs whose every (branch, step) waits at a harness-controlled gate before its event.
    mode: 'one' | 'two0' (branch 0 waits at two gates per step) | 'skip0' (branch 0 has no pending point) |
    'cap0' (step 0 carries block operands: branch 0's initial value and a captured callback in every branch) |
    'arrow' (every later step is `~-> gvia::<B, K, _>`: a function of the previous FUTURE that itself pends) |
    'inplace' (the last branch's initial operand awaits a pending point in place)"""
    assert macro in dsl.ASYNC
    is_try = macro in dsl.TRY
    n = len(depths)
    branches = []
    for b, d in enumerate(depths):
        def fut(k, val):
            site = "%d.%d.%s" % (b, k, "i" if k == 0 else "f")
            if (mode == "skip0" and b == 0) or (mode == "ends" and b not in (0, n - 1)):
                if is_try:
                    return "ready({ let x = %s; ev(\"%s\", &x); st_r(%d, %d, x) })" % (val, site, slot(b, k), payload(b, k))
                return "ready({ let x = %s; ev(\"%s\", &x); st(%d, x) })" % (val, site, slot(b, k))
            if mode == "ends":
                # wide steps: only the first and the last branch wait at a gate (ids 0 and 4), every branch between them is ready
                g = 0 if b == 0 else 4
                if is_try:
                    return "gated_r(%d, \"%s\", %d, %d, %s)" % (g, site, slot(b, k), payload(b, k), val)
                return "gated(%d, \"%s\", %d, %s)" % (g, site, slot(b, k), val)
            if is_try:
                return "gated_r(%d, \"%s\", %d, %d, %s)" % (gate_id(b, k), site, slot(b, k), payload(b, k), val)
            if mode == "two0" and b == 0:
                return "gated2(%d, %d, \"%s\", %d, %s)" % (gate_id(b, k), gate2_id(b, k), site, slot(b, k), val)
            return "gated(%d, \"%s\", %d, %s)" % (gate_id(b, k), site, slot(b, k), val)

        items = []
        if mode == "long0" and b == 0:
            # branch 0's step 0 is a LONG chain: 20 instant operators behind its pending point (all of them belong to step 0)
            for i in range(20):
                if is_try:
                    items.append(Op("|>", [O('|r: Result<i32, i32>| { ev("0.0.a%d", &r); r }' % i)]))
                else:
                    items.append(Op("|>", [O('|v: i32| { ev("0.0.a%d", &v); v }' % i)]))
        if mode == "cap0":
            # a block operand in step 0 of every branch: evaluated when the step starts, i.e. not before the first poll
            if is_try:
                items.append(Op("|>", [B('ev0("c.0.%d.1"); |r: Result<i32, i32>| r' % b)]))
            else:
                items.append(Op("|>", [B('ev0("c.0.%d.1"); |v: i32| v' % b)]))
        for k in range(1, d):
            if mode == "opnd":
                # the OPERAND expression of every later step has a visible evaluation (and is a panic position of its own, input slot
                # 40 + slot): operands of a step are evaluated when the step starts, by whoever drives the macro's own future
                cbt = "opnd(\"%d.%d.o\", %d, |v: i32| %s)" % (b, k, 40 + slot(b, k), fut(k, "v + 1"))
                if is_try:
                    items.append(Op("=>", [O(cbt)], deferred=True))
                else:
                    items.append(Op("..", [O("then(%s)" % cbt)], deferred=True))
            elif is_try:
                items.append(Op("=>", [O("|v: i32| %s" % fut(k, "v + 1"))], deferred=True))
            elif mode == "arrow":
                items.append(Op("->", [O("gvia::<%d, %d, _>" % (b, k))], deferred=True))
            elif b % 2 == 0:
                items.append(Op("..", [O("then(|v: i32| %s)" % fut(k, "v + 1"))], deferred=True))
            else:
                items.append(Op("|>", [O("|v: i32| %s" % fut(k, "v + 1"))], deferred=True))
                items.append(Op("^^>", []))
        # the initial operand is evaluated (logged) when the branch starts, i.e. not before the first poll
        if mode == "cap0" and b == 0:
            branches.append(Branch(B("ev0(\"c.0.0.0\"); %s" % fut(0, "100 * %d + int(%d)" % (b, OFF))), items))
        elif mode == "inplace" and b == n - 1:
            # the LAST branch's initial operand awaits a pending point in place (in the macro's own async body, while the
            # branches are being built): the task-spawning macros have started every earlier branch by then
            branches.append(Branch(O("after(gate(%d).await, lg(\"%d.0.o\", %s))" % (gate2_id(b, 0), b, fut(0, "100 * %d + int(%d)" % (b, OFF)))), items))
        else:
            branches.append(Branch(O("lg(\"%d.0.o\", %s)" % (b, fut(0, "100 * %d + int(%d)" % (b, OFF)))), items))
    h = None
    if handler:
        args = ", ".join("a%d: i32" % i for i in range(n))
        vec = "vec![%s]" % ", ".join("a%d" % i for i in range(n))
        log = "ev(\"h.9.h\", &%s);" % vec
        if handler == "then":
            body = "async move { gate(62).await; %s %s }" % (log, vec)
        elif handler == "map":
            body = "%s %s" % (log, vec)
        else:
            body = "async move { gate(62).await; %s Ok::<Vec<i32>, i32>(%s) }" % (log, vec)
        htext = "|%s| { %s }" % (args, body)
        if hexpr_ev:
            # the handler OPERAND has a visible evaluation: like every user expression it is evaluated only once the future is polled
            htext = "{ ev0(\"hx.0.e\"); %s }" % htext
        h = (handler, htext, None)
    return Program(macro, branches, handler=h, flavour="Res" if is_try else None)


def gates_of(depths, mode, handler=None):
    """(all gate ids, [(gate, branch, step)])"""
    gates, gate_of = [], []
    if mode == "ends":
        return [0, 4] + ([62] if handler in ("then", "and_then") else []), [(0, 0, 0), (4, len(depths) - 1, 0)]
    for b, d in enumerate(depths):
        if mode == "skip0" and b == 0:
            continue
        for k in range(d):
            gates.append(gate_id(b, k))
            gate_of.append((gate_id(b, k), b, k))
            if mode == "two0" and b == 0 or mode == "inplace" and b == len(depths) - 1 and k == 0:
                gates.append(gate2_id(b, k))
                gate_of.append((gate2_id(b, k), b, k))
    if handler in ("then", "and_then"):
        gates.append(62)
    return sorted(gates), gate_of


HEADER = """use futures::future::ready;
fn trt() -> tokio::runtime::Runtime { tokio::runtime::Builder::new_current_thread().build().unwrap() }
"""


def bodies(p, end_marker=False):
    """(reference body, macro body, dsl text, reference text) of fn r()/m() -> String for program p"""
    d = dsl.program_dsl(p)
    anyof = p.is_async and p.is_try
    r = dsl.program_ref(p, anyof=anyof)
    end = "ev0(\"end.99.z\"); " if end_marker else ""
    fmt = "\n%sformat!(\"{:?}\", x)" % end
    if anyof:
        rb = "let x = futures::executor::block_on(%s);\n%sx" % (r, end)
    elif p.is_async:
        rb = "let x = futures::executor::block_on(%s);%s" % (r, fmt)
    else:
        rb = "let x = %s;%s" % (r, fmt)
    if p.is_async and p.is_spawn:
        mb = "let x = trt().block_on(%s);%s" % (d, fmt)
    elif p.is_async:
        mb = "let x = futures::executor::block_on(%s);%s" % (d, fmt)
    else:
        mb = "let x = %s;%s" % (d, fmt)
    return rb, mb, d, r


def to_prog(pid, p, rows, cmp=None, sub=()):
    rb, mb, d, r = bodies(p)
    if cmp is None:
        if p.is_async:
            cmp = "TryAsync" if p.is_try else "ProjSteps"
        elif p.is_spawn:
            cmp = "ProjSteps"
        else:
            cmp = "Full"
    return Prog(pid, rb, mb, rows, cmp, meta={"macro": p.macro, "dsl": d, "ref": r}, sub=sub)


def fail_slots(depths):
    return [slot(b, k) for b, d in enumerate(depths) for k in range(d)]


def offset_rows():
    r0 = [0] * (OFF + 1)
    r1 = [0] * (OFF + 1)
    r1[OFF] = 7
    return [r0, r1]


def pname(ds):
    return "".join(str(d) for d in ds)
