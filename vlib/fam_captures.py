"""C11 family: block operands evaluated once, before their step, in branch-then-position order."""
import re

from . import dsl
from . import fam_profiles as fp
from . import kinds as K
from .dsl import B, Branch, O, Op, Program, Wrap
from .e2 import Prog

NO_CAPTURE_OPS = ("..", ">.", "=>[]", "<->", "|n>", "^^>")


def capturize(row, site, which=None, valueonly=False, label=None):
    """every expression operand of the row (or only operand `which`) becomes a block capture logging `c.<site>.<operand index>`"""
    # an untyped `|_|` inspect closure cannot be hoisted: its higher-ranked signature is only inferred at the call
    # site of the sync inspect helper (Rust closure inference, DESIGN §3.3/§3.16)
    if row.op in NO_CAPTURE_OPS or not row.operands or (row.op == "??" and row.operands[0].startswith("|_|")):
        return Op(row.op, [O(t) for t in row.operands]), 0
    ops = []
    for i, t in enumerate(row.operands):
        if which is None or which == i:
            if valueonly:
                # a block WITHOUT statements whose value is a call with a visible evaluation: `{ lg(site, operand) }`
                ops.append(B('lg("c.%s.%d", %s)' % (site, i, t)))
            else:
                ops.append(B('ev0("c.%s.%d"); %s' % (site, i, t), label=label))
        else:
            ops.append(O(t))
    return Op(row.op, ops), (len(ops) if which is None else 1)


def heavy(b, tag):
    """a branch over Result values with a distinct-constant capture on every action (Process and Err arms alternate)"""
    c = 10 * (b + 1)
    items = [
        Op("|>", [B('ev0("c.%s.1"); let k = %d; move |v: i32| v + k' % (tag, c + 1))]),
        Op("<|", [B('ev0("c.%s.2"); Ok::<i32, i32>(%d)' % (tag, c + 2))]),
        Op("=>", [B('ev0("c.%s.3"); let k = %d; move |v: i32| if v %% 2 == 0 { Ok::<i32, i32>(v + k) } else { Err(v + k) }' % (tag, c + 3))]),
        Op("!>", [B('ev0("c.%s.4"); let k = %d; move |e: i32| e + k' % (tag, c + 4))]),
        Op("<=", [B('ev0("c.%s.5"); let k = %d; move |e: i32| if e %% 3 == 0 { Ok::<i32, i32>(e + k) } else { Err(e + k) }' % (tag, c + 5))]),
        Op("->", [B('ev0("c.%s.6"); let k = %d; move |r: Result<i32, i32>| r.map(|v| v + k)' % (tag, c + 6))]),
        Op("??", [B('ev0("c.%s.7"); |r: &Result<i32, i32>| { ev("%d.q", r); }' % (tag, b))]),
    ]
    return Branch(B('ev0("c.%s.0"); res(%d)' % (tag, b)), items)


def heavy_b(b, tag):
    c = 10 * (b + 1)
    items = [
        Op("|>", [B('ev0("c.%s.1"); let k = %d; move |v: i32| v + k' % (tag, c + 1))]),
        Op("<|", [B('ev0("c.%s.2"); Ok::<i32, i32>(%d)' % (tag, c + 2))]),
        Op("!>", [B('ev0("c.%s.3"); let k = %d; move |e: i32| e + k' % (tag, c + 3))], deferred=True),
        Op("=>", [B('ev0("c.%s.4"); let k = %d; move |v: i32| Ok::<i32, i32>(v + k)' % (tag, c + 4))]),
    ]
    return Branch(O("res(%d)" % b), items)


def fmt_branch0(fk, n):
    others = ", ".join("x.%d" % i for i in range(1, n))
    if fk[0] == "Iter":
        return 'format!("{:?}", (x.0.collect::<Vec<_>>(), %s))' % others
    return 'format!("{:?}", x)'


def chain_programs(tier):
    L = 2
    progs = []
    ops_seen = set()
    for start, init, rows in K.SYNC_STARTS:
        for chain in K.enum_chains(K.sync_rows, start, L):
            if not chain or chain[-1].pinned:
                continue
            fk = K.final_kind(start, chain)
            if fk[0] == "Iter" or any(r.out[0] == "Iter" for r in chain):
                # a lazy iterator that leaves the macro cannot borrow a hoisted capture; iterator chains must end eagerly
                if fk[0] == "Iter":
                    continue
            labels = "-".join(r.label for r in chain)
            # `~` placements: none / before the last operator / before every operator
            two = any(len(r.operands) == 2 and r.op in ("^@", "?^@") for r in chain)
            for dmode in (0, 1, 2, 3, 4, 5, 6):
                if dmode == 2 and len(chain) < 2:
                    continue
                if dmode in (3, 4) and not two:
                    continue  # 3 / 4: only the first / only the second operand of fold, try_fold is a block
                # 5: like 1, but every capture is a statement-less block `{ call(..) }`; untyped closure parameters cannot be inferred
                # through the logging call
                if dmode == 5 and any(re.search(r"\|\s*[a-z_][a-z0-9_]*\s*(,\s*[a-z_][a-z0-9_]*\s*)*\|", t) for r_ in chain for t in r_.operands):
                    continue
                # 6: like 1, but every capture is a LABELLED block `'q: { .. }` (two-branch layout only)
                which = None if dmode not in (3, 4) else dmode - 3
                items = []
                ncap = 0
                step = 0
                for i, row in enumerate(chain):
                    deferred = (dmode in (1, 5, 6) and i == len(chain) - 1) or dmode == 2
                    if deferred:
                        step += 1
                    it, n = capturize(row, "%d.0.%d" % (step, i + 1), which if len(row.operands) == 2 else None, valueonly=(dmode == 5), label=("'q" if dmode == 6 else None))
                    ncap += n
                    ops_seen.add(row.op)
                    it.deferred = deferred
                    items.append(it)
                if ncap == 0:
                    continue
                # a hoisted initial value is an immutable binding: `&mut self` operators cannot follow it directly (DESIGN §3.15)
                if chain[0].op in ("?@", "?|>@", "?^@"):
                    x = Branch(O(init), items)
                elif dmode == 5:
                    x = Branch(B('lg("c.0.0.0.0", %s)' % init), items)
                else:
                    x = Branch(B('ev0("c.0.0.0.0"); %s' % init, label=("'q" if dmode == 6 else None)), items)
                for layout in ("2", "3"):
                    if layout == "3" and (dmode == 6 or tier == "quick" and dmode == 2):
                        continue
                    brs = [x, heavy(1, "H1")] if layout == "2" else [x, heavy(1, "H1"), heavy_b(2, "H2")]
                    p = Program("join", brs)
                    d = dsl.program_dsl(p)
                    r = dsl.program_ref(p)
                    fm = fmt_branch0(fk, len(brs))
                    rows2 = [r0 + [3, 4] for r0 in rows] + [rows[0] + [-6, 2]]
                    pid = "join/%s/%s/d%d/b%s" % (K.short(start), labels, dmode, layout)
                    progs.append(Prog(pid, "let x = %s;\n%s" % (r, fm), "let x = %s;\n%s" % (d, fm), rows2, "Full", meta={"macro": "join", "dsl": d, "ref": r}))
    return progs, ops_seen


def profile_programs(tier):
    """captures in every step of every branch, all 8 macro kinds (spawn/async: capture order via the shared `c` projection)"""
    progs = []
    kinds8 = ["join", "try_join", "join_spawn", "try_join_spawn", "join_async", "try_join_async", "join_async_spawn", "try_join_async_spawn"]
    for ds in fp.profiles(3, 3):
        if max(ds) == 1:
            continue
        for mac in kinds8:
            if "async" in mac and tier == "quick" and sum(ds) > 6:
                continue
            for fl in ("Res", "Opt"):
                if not mac.startswith("try") and fl == "Opt":
                    continue
                if "async" in mac and fl == "Opt":
                    continue
                p = fp.build(mac, ds, flavour=fl if mac.startswith("try") else None, rich=True)
                progs.append(fp.to_prog("%s/%s/%s" % (mac, fl, fp.pname(ds)), p, fp.offset_rows()))
    return progs


def wrapper_order_programs():
    """block operands BEFORE a wrapper opens, INSIDE it (one and two levels deep) and AFTER it closes, in the same branch and step:
    they are evaluated in the order they are written (branch-then-position order), each reading a counter the previous one bumped"""
    from .dsl import Wrap
    progs = []
    def cap(tag, body):
        return B('ev0("c.%s"); let k = cnt(); %s' % (tag, body))
    for mac in ("join", "try_join", "join_spawn"):
        is_try, is_async = mac == "try_join", False
        for shape in range(4):
            for deferred in (False, True):
                def branch(b):
                    f1 = "move |v: i32| v * 10 + k"
                    fo = "move |o: Option<Option<i32>>| o.map(|i| i.map(|v| v * 10 + k))"
                    if is_async:
                        init = cap("%d.i" % b, "ready(Some(Some(%d + k)))" % b) if shape != 3 else O("ready(Some(Some(%d)))" % b)
                        outer_op, fo_t = "|>", fo
                    else:
                        init = cap("%d.i" % b, "Some(Some(%d + k))" % b) if shape != 3 else O("Some(Some(%d))" % b)
                        outer_op, fo_t = "->", fo
                    inner2 = Wrap("|>", [Op("->", [cap("%d.in2" % b, f1)])], close=True)
                    if shape == 0:    # initial block, block inside one level
                        items = [Wrap("|>", [Op("|>", [cap("%d.in1" % b, f1)])], close=True)]
                    elif shape == 1:  # block operand before the wrapper, blocks at both levels, block after the close
                        items = [Op(outer_op, [cap("%d.pre" % b, fo_t)]), Wrap("|>", [inner2], close=True), Op(outer_op, [cap("%d.post" % b, fo_t)])]
                    elif shape == 2:  # wrapper left open to the end of the step
                        items = [Op(outer_op, [cap("%d.pre" % b, fo_t)]), Wrap("|>", [Wrap("|>", [Op("->", [cap("%d.in2" % b, f1)])], close=False)], close=False)]
                    else:             # no initial block: a block before, inside level 1 and inside level 2
                        items = [Op(outer_op, [cap("%d.pre" % b, fo_t)]), Wrap("|>", [Op("->", [cap("%d.in1" % b, "move |i: Option<i32>| i.map(|v| v + k)")]), inner2], close=True)]
                    items[0].deferred = deferred
                    return Branch(init, items)
                p = Program(mac, [branch(0), branch(1)], flavour="Opt" if is_try else None)
                if is_try and False:
                    continue
                d, r = dsl.program_dsl(p), dsl.program_ref(p)
                fm = 'format!("{:?}", x)'
                if is_async:
                    rb, mb = "let x = futures::executor::block_on(%s);\n%s" % (r, fm), "let x = futures::executor::block_on(%s);\n%s" % (d, fm)
                else:
                    rb, mb = "let x = %s;\n%s" % (r, fm), "let x = %s;\n%s" % (d, fm)
                progs.append(Prog("wraporder/%s/%d/%d" % (mac, shape, deferred), rb, mb, [[0]], "Full" if mac in ("join", "try_join") else "Proj", meta={"macro": mac, "dsl": d, "ref": r}))
    return progs
