"""C07 families: the same program under two macro names, compared directly (no hand-written expectation)."""
import json
import os
import re
import shutil
import subprocess

from . import dsl
from . import fam_profiles as fp
from .common import REPO, TARGET, VERIF, WORK, MachineryError, cargo_env, write_if_changed
from .e2 import Prog

PAIRS = [
    ("join", "join_spawn"), ("join", "spawn"), ("try_join", "try_join_spawn"), ("try_join", "try_spawn"),
    ("join_async", "join_async_spawn"), ("join_async", "async_spawn"), ("try_join_async", "try_join_async_spawn"), ("try_join_async", "try_async_spawn"),
    ("join_spawn", "spawn"), ("try_join_spawn", "try_spawn"), ("join_async_spawn", "async_spawn"), ("try_join_async_spawn", "try_async_spawn"),
]


def pair_programs(tier):
    progs = []
    for ds in fp.profiles(3, 3):
        n = len(ds)
        for a, b in PAIRS:
            is_try = a.startswith("try")
            is_async = "async" in a
            if is_async and tier == "quick" and sum(ds) > 5:
                continue
            modes = [("plain", dict()), ("rich", dict(rich=True)), ("hl", dict(handler=("map" if is_try else "then"), lets=[(0, False)]))]
            for mname, kw in modes:
                if mname == "rich" and max(ds) < 2:
                    continue
                if tier == "quick" and mname != "plain" and (a, b) in PAIRS[8:]:
                    continue
                for fl in (("Res", "Opt") if (is_try and not is_async and mname == "plain") else ("Res",)):
                    pa = fp.build(a, ds, flavour=fl if is_try else None, **kw)
                    pb = fp.build(b, ds, flavour=fl if is_try else None, **kw)
                    _, ma, da, _ = fp.bodies(pa)
                    _, mb, db, _ = fp.bodies(pb)
                    # failure subsets where both sides must return the same failure (sync/spawn); async: fault-free rows
                    sub = fp.fail_slots(ds) if (is_try and not is_async and sum(ds) <= 6) else ()
                    rows = [[0]] if sub else fp.offset_rows()
                    progs.append(Prog("%s=%s/%s/%s/%s" % (a, b, fl, fp.pname(ds), mname), ma, mb, rows, "ProjSteps", meta={"macro": b, "dsl": db, "ref": da}, sub=sub))
    return progs


def chain_pair_programs():
    """every typed chain of length <= 2 as first branch of a two-branch program: join! vs join_spawn!/spawn!, try_join! vs ..."""
    from . import fam_chains

    progs = []
    plain = {p.id: p for p in fam_chains.spawn_chain_programs(2, ("join", "try_join"))}
    for other, base in (("join_spawn", "join"), ("spawn", "join"), ("try_join_spawn", "try_join"), ("try_spawn", "try_join")):
        for p in fam_chains.spawn_chain_programs(2, (other,)):
            q = plain.get(p.id.replace(other + "/", base + "/", 1))
            if q is None:
                continue
            progs.append(Prog("%s=%s/%s" % (base, other, p.id), q.mac, p.mac, p.rows, "Proj", meta={"macro": other, "dsl": p.meta["dsl"], "ref": q.meta["dsl"]}))
    return progs


def capture_pair_programs(tier):
    """every typed chain of length <= 2 whose operands are ALL block captures (C11's chain family), join! against join_spawn! and
    spawn!: same value, same trace per branch, and every capture evaluated by the CALLING thread in both (a capture evaluated
    inside a spawned thread sees another thread context: thread-locals, thread id)"""
    from . import fam_captures

    progs, _ = fam_captures.chain_programs(tier)
    out = []
    for p in progs:
        if not p.id.endswith("/b2") or tier == "quick" and "/d1/" not in p.id and "/d3/" not in p.id and "/d4/" not in p.id:
            continue
        for other in ("join_spawn", "spawn"):
            if other == "spawn" and ("/d0/" not in p.id or tier == "quick"):
                continue
            assert p.mac.startswith("let x = join! {")
            ma = "tag_threads(true);\n" + p.mac.replace("\nformat!", "\ntag_threads(false);\nformat!", 1)
            mb = ma.replace("let x = join! {", "let x = %s! {" % other, 1)
            out.append(Prog("join=%s/%s" % (other, p.id), ma, mb, p.rows, "Proj", meta={"macro": other, "dsl": p.meta["dsl"].replace("join! {", other + "! {", 1), "ref": p.meta["dsl"]}))
    return out


# ---------------------------------------------------------------------------------------------
# expansion text: alias == long name == E1 (join_impl called as a library), through rustc's own printer
# ---------------------------------------------------------------------------------------------
ALIASES = [("spawn", "join_spawn"), ("try_spawn", "try_join_spawn"), ("async_spawn", "join_async_spawn"), ("try_async_spawn", "try_join_async_spawn")]


def corpus():
    src = open(os.path.join(VERIF, "rt", "e1", "src", "c20.rs")).read()
    body = src[src.index("pub const CORPUS"):]
    body = body[body.index("= [") + 3: body.index("];")]
    return [json.loads(m) for m in re.findall(r'^\s*("(?:[^"\\]|\\.)*"),\s*$', body, flags=re.M)]


def fn_bodies(text, prefix):
    out = {}
    for m in re.finditer(r"fn (%s\d+)\(\)\s*\{" % prefix, text):
        i = m.end()
        depth = 1
        j = i
        while depth and j < len(text):
            c = text[j]
            if c == "{":
                depth += 1
            elif c == "}":
                depth -= 1
            j += 1
        out[m.group(1)] = re.sub(r"\s+", "", text[i:j - 1])
    return out


def expansion_text_check(e1_exe):
    """returns (pairs_compared, e1_bindings_compared, problems[list of dict])"""
    from . import e1 as e1mod

    items = []
    for c in corpus():
        for alias, long in ALIASES:
            is_try = long.startswith("try")
            body = c
            if "then =>" in body and is_try:
                body = body.replace("then =>", "map =>")
            if ("map =>" in body or "and_then =>" in body) and not is_try:
                body = body.replace("and_then =>", "then =>").replace("map =>", "then =>")
            if "futures_crate_path" in body and "async" not in long:
                continue
            items.append((alias, long, body))
    d = os.path.join(WORK, "c07exp")
    os.makedirs(os.path.join(d, "src"), exist_ok=True)
    lines = ["#![allow(warnings)]", "use join::*;"]
    e1_out = {}
    for i, (alias, long, body) in enumerate(items):
        lines.append("pub fn a%d() { let _ = %s! { %s }; }" % (i, alias, body))
        lines.append("pub fn l%d() { let _ = %s! { %s }; }" % (i, long, body))
        f = os.path.join(d, "body.txt")
        with open(f, "w") as fh:
            fh.write(body)
        p = subprocess.run([e1_exe, "expand", long, f], stdout=subprocess.PIPE, stderr=subprocess.PIPE, text=True, env=cargo_env())
        if p.returncode == 0:
            e1_out[i] = p.stdout.strip()
            lines.append("pub fn e%d() { let _ = %s; }" % (i, e1_out[i]))
    write_if_changed(os.path.join(d, "src", "lib.rs"), "\n".join(lines) + "\n")
    write_if_changed(
        os.path.join(d, "Cargo.toml"),
        "[package]\nname = \"c07exp\"\nversion = \"0.1.0\"\nedition = \"2018\"\n\n[dependencies]\njoin = { path = \"%s/join\" }\nfutures = \"0.3\"\ntokio = { version = \"1\", features = [\"rt\"] }\n\n[workspace]\n" % REPO,
    )
    lock = os.path.join(d, "Cargo.lock")
    if not os.path.exists(lock):
        shutil.copyfile(os.path.join(REPO, "Cargo.lock"), lock)
    p = subprocess.run(
        ["cargo", "rustc", "--offline", "-q", "--lib", "--", "-Zunpretty=expanded"],
        cwd=d, env=cargo_env({"CARGO_TARGET_DIR": os.path.join(TARGET, "c07exp"), "RUSTC_BOOTSTRAP": "1"}), stdout=subprocess.PIPE, stderr=subprocess.PIPE, text=True, timeout=1800,
    )
    if p.returncode != 0 and "error: " in p.stderr and not p.stdout.strip():
        # a macro rejected one of the inputs: find which functions are missing below; hard failure only if nothing was printed
        raise MachineryError("could not print the real expansions (-Zunpretty=expanded):\n%s" % p.stderr[-3000:])
    text = p.stdout
    A, L, E = fn_bodies(text, "a"), fn_bodies(text, "l"), fn_bodies(text, "e")
    problems = []
    npairs = nbind = 0
    for i, (alias, long, body) in enumerate(items):
        a, l = A.get("a%d" % i), L.get("l%d" % i)
        if a is None or l is None:
            problems.append({"what": "MACHINERY: expansion of item %d not found in the printer output" % i, "alias": alias, "body": body})
            continue
        npairs += 1
        if a != l:
            problems.append({"what": "the expansion of %s! differs from the expansion of %s! for the same input" % (alias, long), "alias": alias, "long": long, "body": body, "alias_expansion": a[:600], "long_expansion": l[:600]})
        e = E.get("e%d" % i)
        if e is not None:
            nbind += 1
            if e != l:
                problems.append({"what": "BINDING: join_impl called as a library (E1) produces a different expansion than the real %s! proc-macro" % long, "long": long, "body": body, "e1": e[:600], "real": l[:600]})
    return npairs, nbind, problems, items


def send_not_sync_programs():
    """values that are Send + 'static but NOT Sync (Cell, mpsc::Receiver): spawning needs Send only"""
    progs = []
    body_cell = "{M}! {{ {W}(std::cell::Cell::new(1)) {OP} |c: std::cell::Cell<i32>| {{ c.set(c.get() + 1); {W2}(c) }}, {W}(std::cell::Cell::new(10)) {OP} |c: std::cell::Cell<i32>| {{ c.set(c.get() * 2); {W2}(c) }} }}"
    for a, b in (("join", "join_spawn"), ("join", "spawn"), ("join_async", "join_async_spawn"), ("join_async", "async_spawn"), ("try_join", "try_join_spawn"), ("try_join_async", "try_join_async_spawn")):
        def render(m):
            is_try, is_async = m.startswith("try"), "async" in m
            w = "Ok::<std::cell::Cell<i32>, i32>" if is_try else ""
            w1 = ("ready(%s(" % w if w else "ready((") if is_async else ("%s(" % w if w else "(")
            init = lambda v: ("ready(%s(std::cell::Cell::new(%d)))" % (w, v)) if is_async else ("%s(std::cell::Cell::new(%d))" % (w, v))
            if is_try and is_async:
                op, res = "~=>", "ready(Ok::<std::cell::Cell<i32>, i32>(c))"
            elif is_try or is_async:
                op, res = "~|>", "c"
            else:
                op, res = "~->", "c"
            d = "%s! { %s %s |c: std::cell::Cell<i32>| { c.set(c.get() + 1); %s }, %s %s |c: std::cell::Cell<i32>| { c.set(c.get() * 2); %s } }" % (m, init(1), op, res, init(10), op, res)
            if is_async:
                return "let x = %s(%s);\nformat!(\"{:?}\", x)" % ("trt().block_on" if "spawn" in m else "futures::executor::block_on", d), d
            return "let x = %s;\nformat!(\"{:?}\", x)" % d, d
        ra, da = render(a)
        rb, db = render(b)
        progs.append(Prog("sendnotsync/%s=%s" % (a, b), ra, rb, [[0]], "Value", meta={"macro": b, "dsl": db, "ref": da}))
    return progs


def send_future_programs():
    """the future of a task-spawning macro over Send + 'static branches is itself Send exactly like the plain macro's (it can be a
    branch of another task-spawning macro or be handed to another thread): both sides go through `need_send` and are driven on
    another OS thread"""
    progs = []
    pre = "fn need_send<T: Send>(t: T) -> T { t }\n"
    for a, b in (("join_async", "join_async_spawn"), ("join_async", "async_spawn"), ("try_join_async", "try_join_async_spawn"), ("try_join_async", "try_async_spawn")):
        for ds in ((1, 1), (2, 2), (1, 2), (2, 1, 2), (3, 1)):
            def render(m):
                is_try = m.startswith("try")
                brs = []
                for bi, d in enumerate(ds):
                    t = "ready(Ok::<i32, i32>(%d))" % (10 * bi + 1) if is_try else "ready(%d)" % (10 * bi + 1)
                    for k in range(1, d):
                        t += (" ~=> |v: i32| ready(Ok::<i32, i32>(v + %d))" % k) if is_try else (" ~|> |v: i32| v + %d" % k)
                    brs.append(t)
                d_ = "%s! { %s }" % (m, ", ".join(brs))
                return "let f = need_send(%s);\nlet x = std::thread::spawn(move || trt().block_on(f)).join().unwrap();\nformat!(\"{:?}\", x)" % d_, d_
            ra, da = render(a)
            rb, db = render(b)
            progs.append(Prog("sendfuture/%s=%s/%s" % (a, b, "".join(map(str, ds))), ra, rb, [[0]], "Value", pre=pre, meta={"macro": b, "dsl": "need_send(%s)" % db, "ref": "need_send(%s)" % da}))
    return progs


def no_runtime_programs():
    """a task-spawning macro spawns only in steps with more than one active branch: a program whose steps all have ONE active branch
    needs no tokio runtime at all — driven by a plain executor (no runtime context anywhere) it agrees with the plain macro"""
    progs = []
    for a, b in (("join_async", "join_async_spawn"), ("join_async", "async_spawn"), ("try_join_async", "try_join_async_spawn"), ("try_join_async", "try_async_spawn")):
        for d in (1, 2, 3):
            for handler in (False, True):
                def render(m):
                    is_try = m.startswith("try")
                    t = "ready(Ok::<i32, i32>(7))" if is_try else "ready(7)"
                    for k in range(1, d):
                        t += (" ~=> |v: i32| ready(Ok::<i32, i32>(v + %d))" % k) if is_try else (" ~|> |v: i32| v + %d" % k)
                    if handler:
                        t += ", map => |v: i32| v * 2" if is_try else ", then => |v: i32| async move { v * 2 }"
                    d_ = "%s! { %s }" % (m, t)
                    return "let x = futures::executor::block_on(%s);\nformat!(\"{:?}\", x)" % d_, d_
                ra, da = render(a)
                rb, db = render(b)
                progs.append(Prog("noruntime/%s=%s/%d/%d" % (a, b, d, handler), ra, rb, [[0]], "Value", meta={"macro": b, "dsl": db, "ref": da}))
    return progs
