"""E3-A program sets (async and task-spawning macros on the deterministic executor)."""
from . import dsl
from . import fam_profiles as fp
from .e3a import AProg

ASYNC6 = ["join_async", "try_join_async", "join_async_spawn", "try_join_async_spawn", "async_spawn", "try_async_spawn"]


def aprog(pid, p, ds, mode, handler=None, options=None, **kw):
    if options:
        p.options = [options]
    d = dsl.program_dsl(p)
    anyof = p.is_try
    r = dsl.program_ref(p, anyof=anyof)
    if anyof:
        rb = "let x = futures::executor::block_on(%s);\nev0(\"end.99.z\"); x" % r
    else:
        rb = "let x = futures::executor::block_on(%s);\nev0(\"end.99.z\"); format!(\"{:?}\", x)" % r
    mb = "let f = %s;\nBox::pin(async move { let x = f.await; ev0(\"end.99.z\"); format!(\"{:?}\", x) })" % d
    gates, gate_of = fp.gates_of(ds, mode, handler)
    return AProg(pid, rb, mb, gates, gate_of, ds, maxd=fp.MAXD, meta={"macro": p.macro, "dsl": d, "ref": r}, **kw)


def size_ok(ds, tier, mac):
    g = sum(ds)
    spawn = "spawn" in mac
    if tier == "quick":
        return g <= (4 if spawn else 5)
    return g <= (6 if spawn else 7)


def progress_set(tier):
    """C09 (+ C03 async): fault-free gated profiles, three gate placements, handler variants."""
    out = []
    for ds in fp.profiles(3, 2 if tier == "quick" else 3):
        for mac in ASYNC6:
            if not size_ok(ds, tier, mac):
                continue
            alias = mac in ("async_spawn", "try_async_spawn")
            modes = ["one"] if alias else ["one", "two0", "skip0", "cap0", "arrow"]
            for mode in modes:
                if mode in ("two0", "skip0") and (len(ds) < 2 or mac.startswith("try") and mode == "two0"):
                    continue
                if mode == "arrow" and (mac.startswith("try") or max(ds) < 2):
                    continue
                if mode == "cap0" and "spawn" in mac and len(ds) > 2:
                    continue
                if mode == "two0" and not size_ok(tuple(list(ds) + [ds[0]]), tier, mac):
                    continue
                p = fp.build(mac, ds, gated=mode)
                small = sum(ds) <= (3 if "spawn" in mac else 4)
                out.append(aprog("%s/%s/%s" % (mac, fp.pname(ds), mode), p, ds, mode, crosscheck=(small and mode == "one")))
            if "spawn" in mac and len(ds) >= 2 and not alias:
                # an operand awaited in place while the branches are built: the earlier branches are tasks already and must
                # make progress meanwhile; the same with every value of the lazy_branches switch (no effect on async macros)
                for oi, opts in enumerate((None, "lazy_branches(false)")):
                    if oi and sum(ds) > 3:
                        continue
                    p = fp.build(mac, ds, gated="inplace")
                    out.append(aprog("%s/%s/inplace%d" % (mac, fp.pname(ds), oi), p, ds, "inplace", options=opts))
            if not alias and sum(ds) <= 3:
                hk = "and_then" if mac.startswith("try") else "then"
                p = fp.build(mac, ds, gated="one", handler=hk)
                out.append(aprog("%s/%s/handler" % (mac, fp.pname(ds)), p, ds, "one", handler=hk))
                if sum(ds) <= 2:
                    p = fp.build(mac, ds, gated="one", handler=hk, hexpr_ev=True)
                    out.append(aprog("%s/%s/handlerexpr" % (mac, fp.pname(ds)), p, ds, "one", handler=hk))
    # a long chain (20 instant operators) behind the pending point of branch 0, next to a pending sibling: a released branch runs its
    # step to the END while the sibling is still pending
    for mac in ("join_async", "try_join_async", "join_async_spawn", "try_join_async_spawn"):
        for ds in ((1, 1), (1, 2)):
            p = fp.build(mac, ds, gated="long0")
            out.append(aprog("%s/%s/long0" % (mac, fp.pname(ds)), p, ds, "long0"))
    # wide steps (17 and 33 branches, the first and the last one pending, all others ready): every branch is polled up to its pending
    # point in the first round, whatever its index, and the future completes under both release orders
    for mac in ("join_async", "try_join_async"):
        for n in (17, 33):
            ds = (1,) * n
            hk = "map" if mac.startswith("try") else "then"  # (a tuple of more than 12 elements has no Debug: the handler returns a Vec)
            p = fp.build(mac, ds, gated="ends", handler=hk)
            out.append(aprog("%s/wide%d/ends" % (mac, n), p, ds, "ends", handler=hk))
    return out


def tryfail_set(tier):
    """C05/C06 async: every failure subset x every wake-up order."""
    out = []
    for ds in fp.profiles(3, 2 if tier == "quick" else 3):
        for mac in ("try_join_async", "try_join_async_spawn", "try_async_spawn"):
            lim = (4 if tier == "quick" else 5) if "spawn" not in mac else (3 if tier == "quick" else 4)
            if sum(ds) > lim or (mac == "try_async_spawn" and sum(ds) > 3):
                continue
            p = fp.build(mac, ds, gated="one")
            out.append(aprog("%s/%s" % (mac, fp.pname(ds)), p, ds, "one", sub=fp.fail_slots(ds)))
    return out


def panic_set(tier):
    """C18 async: every single panic position x every wake-up order."""
    out = []
    for ds in fp.profiles(3, 2 if tier == "quick" else 3):
        for mac in ASYNC6:
            lim = 5 if "spawn" not in mac else 4
            if sum(ds) > lim:
                continue
            p = fp.build(mac, ds, gated="one")
            out.append(aprog("%s/%s" % (mac, fp.pname(ds)), p, ds, "one", panics=fp.fail_slots(ds), sub=fp.fail_slots(ds) if (mac.startswith("try") and sum(ds) <= 3) else ()))
            if max(ds) >= 2 and sum(ds) <= 4 and len(ds) <= 2:
                # panics in the OPERAND expressions of later steps (evaluated when the step starts, before any branch of the step can
                # fail), crossed with every failure subset in the try macros
                p = fp.build(mac, ds, gated="opnd")
                ops = [40 + fp.slot(b, k) for b, d in enumerate(ds) for k in range(1, d)]
                out.append(aprog("%s/%s/opnd" % (mac, fp.pname(ds)), p, ds, "one", panics=ops, sub=fp.fail_slots(ds) if mac.startswith("try") else ()))
    return out


def all_sets(tier):
    return {"c09": progress_set(tier), "c05": tryfail_set(tier), "c18": panic_set(tier)}


# ---------------------------------------------------------------------------------------------
# conformance of the tokio shim / gate seam: the same gated programs, free-running on REAL tokio + futures
# ---------------------------------------------------------------------------------------------
REAL_HEADER = """use futures::future::ready;
fn trt() -> tokio::runtime::Runtime { tokio::runtime::Builder::new_current_thread().build().unwrap() }
fn trt_mt() -> tokio::runtime::Runtime { tokio::runtime::Builder::new_multi_thread().worker_threads(4).build().unwrap() }
fn gate(g: usize) -> vrt::Pend { vrt::pend(inp(32 + g % 16) as usize) }
fn after<T>(_: (), v: T) -> T { v }
async fn gated(g: usize, site: &'static str, slot: usize, val: i32) -> i32 { gate(g).await; ev(site, &val); st(slot, val) }
async fn gated_r(g: usize, site: &'static str, slot: usize, payload: i32, val: i32) -> Result<i32, i32> { gate(g).await; ev(site, &val); st_r(slot, payload, val) }
async fn gated2(g: usize, g2: usize, site: &'static str, slot: usize, val: i32) -> i32 { gate(g).await; gate(g2).await; ev(site, &val); st(slot, val) }
async fn gvia<const B: usize, const K: usize, F: std::future::Future<Output = i32>>(f: F) -> i32 { let v = f.await + 1; gate(B * 4 + K).await; ev(&format!("{}.{}.f", B, K), &v); st(B * 4 + K, v) }
"""


def real_tokio_programs(tier):
    """every program of the E3-A progress set, on real tokio (current-thread and 4-worker runtimes) and futures' own executor,
    with pending points that return Pending 0..3 times (rows vary the counts per gate)"""
    from .e2 import Prog

    progs = []
    rows = [[0] * 48, [0] * 32 + [1] * 16, [0] * 32 + [(i % 4) for i in range(16)], [0] * 32 + [(3 - i % 4) for i in range(16)], [0] * 32 + [(i * 7) % 3 for i in range(16)]]
    for a in progress_set(tier):
        if "/wide" in a.id:
            continue  # (fault slots of wide programs wrap around the input table the pending counts live in)
        mac = a.meta["macro"]
        d, r = a.meta["dsl"], a.meta["ref"]
        is_try = mac.startswith("try")
        rb = "futures::executor::block_on(%s)" % r if is_try else "let x = futures::executor::block_on(%s);\nformat!(\"{:?}\", x)" % r
        runners = [("ct", "trt().block_on(%s)"), ("mt", "trt_mt().block_on(%s)")] if "spawn" in mac else [("fx", "futures::executor::block_on(%s)"), ("ct", "trt().block_on(%s)")]
        for rn, tmpl in runners:
            mb = "let x = %s;\nformat!(\"{:?}\", x)" % (tmpl % d)
            progs.append(Prog("real/%s/%s" % (rn, a.id), rb, mb, rows, "TryAsync" if is_try else "ProjSteps", meta={"macro": mac, "dsl": d, "ref": r}))
    return progs
