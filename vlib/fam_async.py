"""E3-A program sets (async and task-spawning macros on the deterministic executor)."""
from . import dsl
from . import fam_profiles as fp
from .e3a import AProg

ASYNC6 = ["join_async", "try_join_async", "join_async_spawn", "try_join_async_spawn", "async_spawn", "try_async_spawn"]


def aprog(pid, p, ds, mode, handler=None, **kw):
    d = dsl.program_dsl(p)
    anyof = p.is_try
    r = dsl.program_ref(p, anyof=anyof)
    if anyof:
        rb = "let x = futures::executor::block_on(%s);\nev0(\"end.99.z\"); x" % r
    else:
        rb = "let x = futures::executor::block_on(%s);\nev0(\"end.99.z\"); format!(\"{:?}\", x)" % r
    mb = "let f = %s;\nBox::pin(async move { let x = f.await; ev0(\"end.99.z\"); format!(\"{:?}\", x) })" % d
    gates, gate_of = fp.gates_of(ds, mode, handler)
    return AProg(pid, rb, mb, gates, gate_of, ds, maxd=fp.MAXD, meta={"macro": p.macro, "dsl": d, "ref": r}, **kw)


def size_ok(ds, tier, mac):
    g = sum(ds)
    spawn = "spawn" in mac
    if tier == "quick":
        return g <= (4 if spawn else 5)
    return g <= (6 if spawn else 7)


def progress_set(tier):
    """C09 (+ C03 async): fault-free gated profiles, three gate placements, handler variants."""
    out = []
    for ds in fp.profiles(3, 2 if tier == "quick" else 3):
        for mac in ASYNC6:
            if not size_ok(ds, tier, mac):
                continue
            alias = mac in ("async_spawn", "try_async_spawn")
            modes = ["one"] if alias else ["one", "two0", "skip0"]
            for mode in modes:
                if mode != "one" and (len(ds) < 2 or mac.startswith("try") and mode == "two0"):
                    continue
                if mode == "two0" and not size_ok(tuple(list(ds) + [ds[0]]), tier, mac):
                    continue
                p = fp.build(mac, ds, gated=mode)
                small = sum(ds) <= (3 if "spawn" in mac else 4)
                out.append(aprog("%s/%s/%s" % (mac, fp.pname(ds), mode), p, ds, mode, crosscheck=(small and mode == "one")))
            if not alias and sum(ds) <= 3:
                hk = "and_then" if mac.startswith("try") else "then"
                p = fp.build(mac, ds, gated="one", handler=hk)
                out.append(aprog("%s/%s/handler" % (mac, fp.pname(ds)), p, ds, "one", handler=hk))
    return out


def tryfail_set(tier):
    """C05/C06 async: every failure subset x every wake-up order."""
    out = []
    for ds in fp.profiles(3, 2 if tier == "quick" else 3):
        for mac in ("try_join_async", "try_join_async_spawn", "try_async_spawn"):
            lim = (4 if tier == "quick" else 5) if "spawn" not in mac else (3 if tier == "quick" else 4)
            if sum(ds) > lim or (mac == "try_async_spawn" and sum(ds) > 3):
                continue
            p = fp.build(mac, ds, gated="one")
            out.append(aprog("%s/%s" % (mac, fp.pname(ds)), p, ds, "one", sub=fp.fail_slots(ds)))
    return out


def panic_set(tier):
    """C18 async: every single panic position x every wake-up order."""
    out = []
    for ds in fp.profiles(3, 2 if tier == "quick" else 3):
        for mac in ASYNC6:
            lim = (4 if tier == "quick" else 5) if "spawn" not in mac else (3 if tier == "quick" else 4)
            if sum(ds) > lim:
                continue
            p = fp.build(mac, ds, gated="one")
            out.append(aprog("%s/%s" % (mac, fp.pname(ds)), p, ds, "one", panics=fp.fail_slots(ds)))
    return out


def all_sets(tier):
    return {"c09": progress_set(tier), "c05": tryfail_set(tier), "c18": panic_set(tier)}
