"""Registry: property id -> check function(tier, report)."""
import json
import os

from . import e2
from .common import Report, MachineryError

CHECKS = {}


def check(pid, level):
    def deco(f):
        CHECKS[pid] = (f, level)
        return f

    return deco


def run(pid, tier):
    f, level = CHECKS[pid]
    rep = Report(pid, tier, level)
    f(tier, rep)
    return rep.finish()


def setup():
    return 0


def replay(path):
    with open(path) as f:
        d = json.load(f)
    print(json.dumps(d, indent=1))
    return 0


def judge_family(rep, fr, progs_meta_key="dsl", what_prefix=""):
    """Turn a FamilyResult into violations + coverage counters."""
    rep.add("programs", fr.programs)
    rep.add("evaluations", fr.rows)
    rep.add("input_rows", fr.rows)
    rep.add("distinct_nontrivial", fr.nontrivial)
    rep.add("build_s", round(fr.build_s, 1))
    rep.add("run_s", round(fr.run_s, 1))
    for p, rendered in fr.compile_violations:
        first = next((l for l in rendered.splitlines() if l.startswith("error")), rendered[:200])
        rep.violate(
            "%s | compile" % p.meta.get("dsl", p.id),
            "%smacro output does not compile where the documented form does: %s  [%s]" % (what_prefix, p.meta.get("dsl", p.id), first),
            {"program": p.id, "dsl": p.meta.get("dsl"), "reference": p.meta.get("ref"), "rustc": rendered, "mac_body": p.mac, "ref_body": p.ref},
        )
    for p, mm, n in fr.mismatches:
        rep.violate(
            "%s | row %s" % (p.meta.get("dsl", p.id), mm["row"]),
            "%s%s on input row %s: reference %s / macro %s (%d rows differ)"
            % (what_prefix, p.meta.get("dsl", p.id), mm["row"], json.dumps(mm["ref"])[:300], json.dumps(mm["mac"])[:300], n),
            {"program": p.id, "dsl": p.meta.get("dsl"), "reference": p.meta.get("ref"), "mismatch": mm, "mac_body": p.mac, "ref_body": p.ref, "pre": p.pre},
        )


# -------------------------------------------------------------------------------------------------
@check("C01", "exploration")
def c01(tier, rep):
    from . import fam_chains, kinds

    stats = fam_chains.new_stats()
    if tier == "quick":
        progs, _ = fam_chains.sync_chain_programs(2, stats=stats)
        p3, _ = fam_chains.sync_chain_programs(3, macros=("join",), starts=kinds.SYNC_STARTS[: fam_chains.PRIMARY], minlen=3, stats=stats)
        bound = "length <= 2 from all 9 start kinds in join!/try_join!, length 3 from Opt(Int)/Res(Int)/Iter(Int) in join!"
    else:
        progs, _ = fam_chains.sync_chain_programs(3, stats=stats)
        p3, _ = fam_chains.sync_chain_programs(4, macros=("join",), starts=kinds.SYNC_STARTS[: fam_chains.PRIMARY], minlen=4, stats=stats)
        bound = "length <= 3 from all 9 start kinds in join!/try_join!, length 4 from Opt(Int)/Res(Int)/Iter(Int) in join!"
    progs += p3
    fr = e2.run_family("c01sync", progs)
    judge_family(rep, fr)
    rep.set("states", len(stats["kinds"]))
    rep.set("transitions", len(stats["rows"]))
    rep.set("operator_pairs", len(stats["pairs"]))
    rep.set("operator_triples", len(stats["triples"]))
    rep.set("rule", "all paths of the typed operator transition system (%s); every program runs on every row of its start kind's input table and is compared, value and full callback trace, with the documented method chain compiled in the same binary; non-trivial = trace non-empty and >= 2 distinct outcomes over its rows" % bound)
    for p in progs[:: max(1, len(progs) // 5)][:5]:
        rep.sample({"dsl": p.meta["dsl"], "reference": p.meta["ref"], "result": fr.results.get(p.id, {}).get("sample")})
