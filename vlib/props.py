"""Registry: property id -> check function(tier, report)."""
import json
import os

from . import e2
from .common import Report, MachineryError

CHECKS = {}


def check(pid, level):
    def deco(f):
        CHECKS[pid] = (f, level)
        return f

    return deco


def run(pid, tier):
    os.environ["VERIF_TIER_RUNNING"] = tier
    f, level = CHECKS[pid]
    rep = Report(pid, tier, level)
    f(tier, rep)
    return rep.finish()


def setup():
    """Warm the build caches (dependencies, runtime crates, one tiny family per engine) from files on disk."""
    from . import e3t, fam_profiles as fp, fam_threads

    p = fp.build("try_join_async_spawn", (2, 1))
    e2.run_family("warm", [fp.to_prog("warm", p, [[0]])], extra_header=fp.HEADER)
    from . import e3a, fam_async

    for tier in ("quick",):
        e3t.build("profiles_%s" % tier, fam_threads.all_sets(tier))
        e3a.build("profiles_%s" % tier, fam_async.all_sets(tier))
    print("setup ok")
    return 0


def replay(path):
    """Re-runs exactly the violating case from the CURRENT $VERIF_REPO (default /repo) working tree, twice, and prints both observations."""
    with open(path) as f:
        d = json.load(f)
    det = d.get("detail", {})
    eng = det.get("engine")
    print("property: %s\nwhat: %s\n" % (d.get("property"), d.get("what")))
    if eng == "E2":
        p = e2.Prog("replay", det["ref_body"], det["mac_body"], [det.get("row") or [0]], det.get("cmp") or "Full", pre=det.get("pre") or "", meta={"dsl": det.get("dsl"), "ref": det.get("reference")})
        for k in (1, 2):
            fr = e2.run_family("replay", [p], shards=1, extra_header=det.get("extra_header") or "", deps_override=det.get("deps_override"))
            if fr.compile_violations:
                print("run %d: the macro invocation does not compile (the reference does):\n%s" % (k, fr.compile_violations[0][1][:1500]))
            elif fr.mismatches:
                mm = fr.mismatches[0][1]
                print("run %d: MISMATCH on row %s\n  reference: %s\n  macro:     %s" % (k, mm["row"], json.dumps(mm["ref"]), json.dumps(mm["mac"])))
            else:
                print("run %d: macro and reference agree on row %s: %s" % (k, det.get("row"), json.dumps(fr.results["replay"].get("sample"))))
        return 0
    if eng in ("E3-T", "E3-A"):
        ex = det["execution"]
        if eng == "E3-T":
            from . import e3t

            tp = det["tprog"]
            q = e3t.TProg("replay", det["ref_body"], det["mac_body"], rows=[ex["row"]], depths=tp["depths"], callers=tp["callers"], check_threads=tp["check_threads"], names=[tuple(x) for x in tp["names"]], pbound=tp["pbound"], maxd=tp["maxd"])
            exe, cv = e3t.build("replay", {"replay": [q]})
            for k in (1, 2):
                res = e3t.run_set(exe, "replay", [q] if not cv else [], shards=1)
                print("run %d: %d schedules explored for fault row %s; %d violating" % (k, res.executions, ex["row"], sum(n for _, _, n in res.violations[:1])))
                for _, v, n in res.violations[:1]:
                    print("  schedule %s (caller %s): %s\n  value %s\n  ops %s" % (v["schedule"], v["caller"], v["what"], v["value"], v["ops"]))
        else:
            from . import e3a

            ap = det["aprog"]
            q = e3a.AProg("replay-%s" % (det.get("program") or ""), det["ref_body"], det["mac_body"], ap["gates"], [tuple(x) for x in ap["gate_of"]], ap["depths"], rows=[ex["row"] or [0]], spurious=ap["spurious"], maxd=ap["maxd"])
            exe, cv = e3a.build("replay", {"replay": [q]})
            for k in (1, 2):
                res = e3a.run_set(exe, "replay", [q] if not cv else [], shards=1)
                print("run %d: %d decision sequences explored for fault row %s; %d violating" % (k, res.executions, ex["row"], sum(n for _, _, n in res.violations[:1])))
                for _, v, n in res.violations[:1]:
                    print("  decisions %s: %s\n  value %s\n  log %s" % (v["decisions"], v["what"], v["value"], v["log"]))
        return 0
    if eng == "E1" and det.get("input") is not None and det.get("config"):
        from . import e1

        exe = e1.build()
        tmp = os.path.join(e2.WORK, "replay_input.txt")
        with open(tmp, "w") as fh:
            fh.write(det["input"])
        import subprocess

        hist = det.get("history") or []
        if hist and all(isinstance(h, str) for h in hist):
            # an expansion history (C20): replay the whole sequence in ONE process, every position against a fresh process
            lines = []
            for h in hist:
                m = re.match(r"^(\w+)!\{ (.*) \}$", h, flags=re.S)
                lines.append("%s\t%s" % (m.group(1), m.group(2)) if m else "%s\t%s" % (det["config"], h))
            with open(tmp, "w") as fh:
                fh.write("\n".join(lines) + "\n")
            for k in (1, 2):
                p = subprocess.run([exe, "c20", "seq", tmp], stdout=subprocess.PIPE, stderr=subprocess.PIPE, text=True)
                print("run %d (history of %d expansions in one process):\n%s" % (k, len(lines), p.stdout.strip()[:3000]))
            return 0
        for k in (1, 2):
            p = subprocess.run([exe, "expand", det["config"], tmp], stdout=subprocess.PIPE, stderr=subprocess.PIPE, text=True)
            print("run %d: %s!{ %s } ->\n  %s" % (k, det["config"], det["input"], p.stdout.strip()[:1500]))
        return 0
    print(json.dumps(d, indent=1)[:6000])
    return 0


def unit_test_e2(p, row, header=""):
    """a plain #[test] that replays one E2 case without any explorer (depends on rt/vrt + the repository's join crate only)"""
    return (
        "// Cargo.toml: join = { path = \"/repo/join\" }, vrt = { path = \"/verif/rt/vrt\" }, futures = \"0.3\", tokio = { version = \"1\", features = [\"rt\", \"rt-multi-thread\"] }\n"
        "#![allow(warnings)]\nuse vrt::*;\nuse join::*;\n%s%s\nfn reference() -> String {\n%s\n}\nfn with_macro() -> String {\n%s\n}\n"
        "#[test]\nfn replay() {\n    let row: &[i64] = &%s;\n    vrt::set_inp(row);\n    let r = vrt::run1(reference);\n    vrt::set_inp(row);\n    let m = vrt::run1(with_macro);\n    assert_eq!((&r.0, &r.1), (&m.0, &m.1), \"value / event trace of the macro differ from the reference\");\n}\n"
        % (header, p.pre or "", p.ref, p.mac, json.dumps(list(row)))
    )


def judge_family(rep, fr, progs_meta_key="dsl", what_prefix=""):
    """Turn a FamilyResult into violations + coverage counters."""
    rep.add("programs", fr.programs)
    rep.add("evaluations", fr.rows)
    rep.add("input_rows", fr.rows)
    rep.add("distinct_nontrivial", fr.nontrivial)
    rep.add("build_s", round(fr.build_s, 1))
    rep.add("run_s", round(fr.run_s, 1))
    for p, rendered in fr.compile_violations:
        first = next((l for l in rendered.splitlines() if l.startswith("error")), rendered[:200])
        rep.violate(
            "%s | compile" % p.meta.get("dsl", p.id),
            "%smacro output does not compile where the documented form does: %s  [%s]" % (what_prefix, p.meta.get("dsl", p.id), first),
            {"program": p.id, "dsl": p.meta.get("dsl"), "reference": p.meta.get("ref"), "rustc": rendered, "mac_body": p.mac, "ref_body": p.ref, "pre": p.pre,
             "engine": "E2", "family": fr.name, "extra_header": fr.extra_header, "deps_override": fr.deps_override, "cmp": p.cmp, "row": [0]},
        )
    for p, mm, n in fr.mismatches:
        rep.violate(
            "%s | row %s" % (p.meta.get("dsl", p.id), mm["row"]),
            "%s%s on input row %s: reference %s / macro %s (%d rows differ)"
            % (what_prefix, p.meta.get("dsl", p.id), mm["row"], json.dumps(mm["ref"])[:300], json.dumps(mm["mac"])[:300], n),
            {"program": p.id, "dsl": p.meta.get("dsl"), "reference": p.meta.get("ref"), "mismatch": mm, "mac_body": p.mac, "ref_body": p.ref, "pre": p.pre,
             "engine": "E2", "family": fr.name, "extra_header": fr.extra_header, "deps_override": fr.deps_override, "cmp": p.cmp, "row": mm["row"],
             "unit_test": unit_test_e2(p, mm["row"], fr.extra_header)},
        )


# -------------------------------------------------------------------------------------------------
@check("C01", "exploration")
def c01(tier, rep):
    from . import fam_chains, kinds

    stats = fam_chains.new_stats()
    if tier == "quick":
        progs, _ = fam_chains.sync_chain_programs(2, stats=stats)
        p3, _ = fam_chains.sync_chain_programs(3, macros=("join",), starts=kinds.SYNC_STARTS[: fam_chains.PRIMARY], minlen=3, stats=stats)
        bound = "length <= 2 from all 9 start kinds in join!/try_join!, length 3 from Opt(Int)/Res(Int)/Iter(Int) in join!"
    else:
        progs, _ = fam_chains.sync_chain_programs(3, stats=stats)
        p3, _ = fam_chains.sync_chain_programs(4, macros=("join",), starts=kinds.SYNC_STARTS[: fam_chains.PRIMARY], minlen=4, stats=stats)
        bound = "length <= 3 from all 9 start kinds in join!/try_join!, length 4 from Opt(Int)/Res(Int)/Iter(Int) in join!"
    progs += p3
    fr = e2.run_family("c01sync", progs)
    judge_family(rep, fr)
    from . import fam_operands as fo

    op = fo.operand_programs(tier) + fo.initial_programs() + fo.twin_programs() + fo.question_mark_programs() + fo.handler_lookalike_programs()
    fro = e2.run_family("c01operands", op, extra_header=fo.PRE)
    judge_family(rep, fro)
    rep.set("operand_corpus_programs", len(op))
    ap, _ = fam_chains.async_chain_programs(2 if tier == "quick" else 3, stats=stats)
    fra = e2.run_family("c01async", ap, extra_header=fam_chains.ASYNC_HEADER)
    judge_family(rep, fra)
    rep.set("async_chain_programs", len(ap))
    sp = fam_chains.spawn_chain_programs(1 if tier == "quick" else 2, ("join_spawn", "try_join_spawn", "spawn", "try_spawn"))
    frs = e2.run_family("c01spawn", sp)
    judge_family(rep, frs)
    rep.set("spawn_chain_programs", len(sp))
    # operators whose operands are blocks that depend on evaluation order: the capture-dense chain family (shared with C11)
    from . import fam_captures

    cp, _ = fam_captures.chain_programs(tier)
    frc = e2.run_family("c11chains", cp)
    judge_family(rep, frc)
    # operators mixed with `>>>` / `<<<` around a step boundary: the deferred-opener layouts of the wrapper family (shared with C02)
    from . import fam_wrappers

    wp, _ = fam_wrappers.programs(tier)
    wp = [q for q in wp if "~wrap" in q.id or "close~" in q.id]
    frw = e2.run_family("c01wrapsteps", wp)
    judge_family(rep, frw)
    rep.set("deferred_wrapper_layout_programs", len(wp))
    # stateful callbacks: the documented method chain hands every callback over as written, so callbacks that write to a caller local
    # (inside and outside wrappers) leave the local exactly as the method chain does (shared with C02 / C19)
    from . import fam_costs, fam_names

    sp2 = [p for p in fam_costs.borrow_programs() if "shared-local" in p.id or "wrapper-closure" in p.id or "closure-mut-borrow" in p.id]
    frs2 = e2.run_family("c01shared", sp2, extra_header=fam_names.NEST_HEADER + fam_costs.RC_PRE)
    judge_family(rep, frs2)
    rep.set("states", len(stats["kinds"]))
    rep.set("transitions", len(stats["rows"]))
    rep.set("operator_pairs", len(stats["pairs"]))
    rep.set("operator_triples", len(stats["triples"]))
    rep.set("rule", "all paths of the typed operator transition system (%s); every program runs on every row of its start kind's input table and is compared, value and full callback trace, with the documented method chain compiled in the same binary; non-trivial = trace non-empty and >= 2 distinct outcomes over its rows; operand corpus: 16 operator sites x every operand form of its role (typed / untyped / move closures, fn paths, turbofish, parenthesised, closure-returning calls, closures with operator look-alikes and return types, block captures, nested macro calls) x every following operator; initial-operand corpus: 30 initial expressions (unary, binary, cast, reference, comparison, if/match, closure, range, tuple/array) x {single branch, second branch, let}; async: every path of the async table (futures 0.3 FutureExt/TryFutureExt/StreamExt/TryStreamExt rows) of length <= %d ending in a future, in join_async!/try_join_async!; thread-spawning kinds and aliases: every chain of length <= %d as first branch of a two-branch program" % (bound, 2 if tier == "quick" else 3, 1 if tier == "quick" else 2))
    for p in progs[:: max(1, len(progs) // 5)][:5]:
        rep.sample({"dsl": p.meta["dsl"], "reference": p.meta["ref"], "result": fr.results.get(p.id, {}).get("sample")})


# -------------------------------------------------------------------------------------------------
KINDS8 = ["join", "try_join", "join_spawn", "try_join_spawn", "join_async", "try_join_async", "join_async_spawn", "try_join_async_spawn"]
TRY6 = ["try_join", "try_join_spawn", "try_spawn", "try_join_async", "try_join_async_spawn", "try_async_spawn"]


def sample_family(rep, progs, fr, k=5):
    for p in progs[:: max(1, len(progs) // k)][:k]:
        rep.sample({"dsl": p.meta["dsl"], "result": fr.results.get(p.id, {}).get("sample")})


@check("C04", "exploration")
def c04(tier, rep):
    from . import dsl, fam_profiles as fp

    if tier == "quick":
        profs = [ds for ds in fp.profiles(4, 3)] + [ds for ds in fp.profiles(3, 4) if max(ds) == 4]
        aprofs = set(fp.profiles(3, 3))
        bound = "all depth profiles n<=4,d<=3 and n<=3,d<=4 (async kinds: n<=3,d<=3)"
    else:
        profs = [ds for ds in fp.profiles(4, 4)] + [ds for ds in fp.profiles(6, 2, nmin=5)]
        aprofs = set(profs)
        bound = "all depth profiles n<=4,d<=4 and n in {5,6},d<=2"
    progs = []
    for ds in profs:
        n = len(ds)
        for mac in KINDS8:
            if "async" in mac and ds not in aprofs:
                continue
            is_try = mac.startswith("try")
            hk = "map" if is_try else "then"
            modes = [
                ("plain", dict()),
                ("handler", dict(handler=hk)),
                ("letall", dict(lets=[(b, b % 2 == 1) for b in range(n)])),
                ("letalt", dict(lets=[(b, False) for b in range(0, n, 2)], handler=("and_then" if is_try else "then"))),
            ]
            for mname, kw in modes:
                p = fp.build(mac, ds, **kw)
                progs.append(fp.to_prog("%s/%s/%s" % (mac, fp.pname(ds), mname), p, fp.offset_rows()))
    # token-identical branches that evaluate to different values (a generator that identifies branches by their text confuses them)
    for mac in ("join", "try_join", "join_async", "try_join_async"):
        is_try, is_async = mac.startswith("try"), "async" in mac
        for n in (2, 3, 4):
            for d in (1, 2, 3):
                w = "Some(%s)" if is_try and not is_async else ("Ok::<i32, i32>(%s)" if is_try else "%s")
                init = w % "cnt() * 100"
                if is_async:
                    init = "ready(%s)" % init
                op = "=>" if (is_try and is_async) else ("|>" if (is_try or is_async) else "->")
                stepv = "ready(Ok::<i32, i32>(v + 1))" if (is_try and is_async) else "v + 1"
                br = init + "".join(" ~%s |v: i32| { ev(\"t.%d.f\", &v); %s }" % (op, k, stepv) for k in range(1, d))
                p = dsl.Program(mac, [dsl.Branch(dsl.O(init), [dsl.Op(op, [dsl.O("|v: i32| { ev(\"t.%d.f\", &v); %s }" % (k, stepv))], deferred=True) for k in range(1, d)]) for _ in range(n)], flavour=("Opt" if not is_async else "Res") if is_try else None)
                # one odd branch in the middle so that the twins are not all the branches
                if n >= 3:
                    p.branches[1] = dsl.Branch(dsl.O(init), list(p.branches[1].items) + [dsl.Op(op, [dsl.O("|v: i32| { ev(\"t.9.f\", &v); %s }" % stepv)], deferred=True)])
                progs.append(fp.to_prog("twins/%s/%d/%d" % (mac, n, d), p, [[0]], cmp="Full" if not is_async else None))
    # wide profiles: the arity thresholds of tuples / index formatting / futures' join macros (10, 12, 13, 17, 33 branches; deepest branch
    # first / in the middle / last; depths cycling). Tuples above 12 elements have no Debug: those run with a handler only (it
    # receives every value and returns them as a Vec)
    wide = [tuple(1 + (b % 3) for b in range(10)), tuple(1 + ((b + 1) % 3) for b in range(12)), (1,) * 6 + (3,) + (2,) * 6,
            (3,) + (2, 1) * 8, (1, 2) * 16 + (3,), (1,) * 64 + (2,)]
    if tier != "quick":
        wide += [tuple(1 + (b % 4) for b in range(24)), (2,) * 20 + (4,) + (1,) * 19, tuple(1 + ((5 * b) % 3) for b in range(64))]
    for ds in wide:
        n = len(ds)
        for mac in KINDS8:
            if n > 40 and "async" in mac and tier == "quick":
                continue  # (65 futures in one futures::join! take rustc a minute; thorough only)
            is_try = mac.startswith("try")
            modes = [("handler", dict(handler="map" if is_try else "then")),
                     ("letalt", dict(lets=[(b, b % 4 == 0) for b in range(0, n, 2)], handler=("and_then" if is_try else "then")))]
            if n <= 12:
                modes += [("plain", dict()), ("letall", dict(lets=[(b, b % 2 == 1) for b in range(n)]))]
            for mname, kw in modes:
                p = fp.build(mac, ds, **kw)
                rows = fp.offset_rows()
                if is_try:
                    # one row per fault slot: every single (branch, step) position fails once
                    for sl in sorted(set(fp.fail_slots(ds))):
                        r = [0] * (max(fp.OFF, sl) + 1)
                        r[sl] = 1
                        rows.append(r)
                progs.append(fp.to_prog("wide/%s/n%d-%s/%s" % (mac, n, fp.pname(ds)[:16], mname), p, rows))
    progs += mirrored_recovery_programs()
    fr = e2.run_family("c04", progs, extra_header=fp.HEADER)
    judge_family(rep, fr)
    rep.set("profiles", len(profs))
    rep.set("wide_profiles", [len(w) for w in wide])
    rep.set("rule", "wide profiles (10, 12, 13, 17, 33, 65 branches — 65 in the sequential / thread-spawning kinds —; thorough + 24, 40, 64 and 65 in all kinds; depths cycling, deepest branch first / in the middle / last) x 8 kinds x {handler receiving every value, let on alternate branches + handler; n <= 12 also plain / let on every branch}, try kinds additionally with one row per fault slot; mirrored recovery operands: 2-4 branches whose error-side operators (`!>`, `<=`, `<|`) carry BLOCK operands with branch-specific constants at the same action index of the same step, all 8 kinds, every subset of failing branches: position i must show branch i's own recovery value; %s x 8 macro kinds x {no handler, handler, let on every branch, let on alternate branches + handler}; branch i starts at 100*i+offset and adds 1 per step; result (and handler arguments) compared with the reference tuple; distinct = program, non-trivial = trace non-empty and 2 distinct outcomes over the offset rows" % bound)
    sample_family(rep, progs, fr)


def mirrored_recovery_programs():
    """every branch has the same shape — error-side operators with BLOCK operands at the same action index of the same step — but
    branch-specific constants; every subset of the branches takes the error path: position i must carry branch i's own values"""
    from . import fam_profiles as fp

    progs = []
    fmt = '\nformat!("{:?}", x)'
    for mac in KINDS8:
        is_try, is_async, is_spawn = mac.startswith("try"), "async" in mac, "spawn" in mac
        for n in (2, 3, 4):
            for d in (1, 2):
                if n == 4 and (is_async or d == 2):
                    continue
                ds, rs = [], []
                for b in range(n):
                    init = "st_r(%d, %d, 100 * %d)" % (fp.slot(b, 0), fp.payload(b, 0), b)
                    me = "{ let k = %d; move |e: i32| e + k }" % (20 + b)
                    me2 = "{ let k = %d; move |e: i32| e + k }" % (50 + b)
                    if is_async:
                        oe = "{ let k = %d; move |e: i32| ready(if e %% 2 == 0 { Ok::<i32, i32>(e + k) } else { Err(e + k) }) }" % (30 + b)
                        rc = "{ let k = %d; move |e: i32| ready(Ok::<i32, i32>(k + e * 0)) }" % (10 + b)
                        ds.append("ready(%s) !> %s <= %s <= %s%s" % (init, me, oe, rc, (" ~!> %s" % me2) if d == 2 else ""))
                        rs.append("{ use futures::TryFutureExt; ready(%s).map_err(%s).or_else(%s).or_else(%s)%s.await }" % (init, me, oe, rc, (".map_err(%s)" % me2) if d == 2 else ""))
                    else:
                        oe = "{ let k = %d; move |e: i32| if e %% 2 == 0 { Ok::<i32, i32>(e + k) } else { Err(e + k) } }" % (30 + b)
                        rc = "{ Ok::<i32, i32>(%d) }" % (10 + b)
                        rc2 = "{ Ok::<i32, i32>(%d) }" % (60 + b)
                        ds.append("%s !> %s <= %s <| %s%s" % (init, me, oe, rc, (" ~!> %s <| %s" % (me2, rc2)) if d == 2 else ""))
                        rs.append("%s.map_err(%s).or_else(%s).or(%s)%s" % (init, me, oe, rc, (".map_err(%s).or(%s)" % (me2, rc2)) if d == 2 else ""))
                dtext = "%s! { %s }" % (mac, ", ".join(ds))
                vals = ", ".join("v%d" % b for b in range(n))
                lets = " ".join("let v%d = %s;" % (b, r) for b, r in enumerate(rs))
                if is_try:
                    tail = "(|| Ok::<_, i32>((%s)))()" % ", ".join("v%d?" % b for b in range(n))
                else:
                    tail = "(%s)" % vals
                if is_async:
                    rb = "let x = futures::executor::block_on(async { %s %s });%s" % (lets, tail, fmt)
                    mb = ("let x = trt().block_on(%s);%s" if is_spawn else "let x = futures::executor::block_on(%s);%s") % (dtext, fmt)
                else:
                    rb = "let x = { %s %s };%s" % (lets, tail, fmt)
                    mb = "let x = %s;%s" % (dtext, fmt)
                progs.append(e2.Prog("mirror/%s/%d/%d" % (mac, n, d), rb, mb, [[0]], "Value", meta={"macro": mac, "dsl": dtext, "ref": rb}, sub=[fp.slot(b, 0) for b in range(n)]))
    return progs


# -------------------------------------------------------------------------------------------------
def tryfail_family(tier):
    """C05/C06: every failure placement over every depth profile, rich steps (capture, error-side callback,
    non-closure operand in every step >= 1)."""
    from . import fam_profiles as fp

    if tier == "quick":
        profs = list(fp.profiles(4, 3))
        bound = "depth profiles n<=4,d<=3"
    else:
        profs = list(fp.profiles(4, 3)) + [ds for ds in fp.profiles(3, 4) if max(ds) == 4] + list(fp.profiles(5, 2, nmin=5))
        bound = "depth profiles n<=4,d<=3; n<=3,d<=4; n=5,d<=2"
    progs = []
    for ds in profs:
        for mac in TRY6:
            for fl in ("Res", "Opt"):
                if "async" in mac and fl == "Opt":
                    continue
                p = fp.build(mac, ds, flavour=fl, rich=True)
                progs.append(fp.to_prog("%s/%s/%s" % (mac, fl, fp.pname(ds)), p, [[0]], sub=fp.fail_slots(ds)))
                if len(ds) <= 3 and max(ds) > 1:
                    p = fp.build(mac, ds, flavour=fl, rich=True, wrap=True)
                    progs.append(fp.to_prog("%s/%s/%s/w" % (mac, fl, fp.pname(ds)), p, [[0]], sub=fp.fail_slots(ds)))
                if fl == "Res" and "async" not in mac and 2 <= len(ds) <= 3 and max(ds) > 1 and (tier != "quick" or mac == "try_join" or len(ds) == 2):
                    # block captures on the FIRST action (error-side callback) and the SECOND action (success-side callback) of every
                    # branch-step, all of one signature: which branch fails must not depend on a neighbour's capture
                    p = fp.build(mac, ds, flavour="Res", rich=True, errcap=True)
                    progs.append(fp.to_prog("%s/Res/%s/errcap" % (mac, fp.pname(ds)), p, [[0]], sub=fp.fail_slots(ds)))
                # every later step STARTS with a deferred error-side operator (`~!>`, `~<=`, `~<|`): a failure of the previous step is
                # still noticed at the end of that step, before the error-side operator of the next one could touch it
                if fl == "Res" and "async" not in mac and len(ds) <= 3 and max(ds) > 1 and (tier != "quick" or mac == "try_join" or len(ds) == 2):
                    for es in ("!>", "<=", "<|"):
                        p = fp.build(mac, ds, flavour="Res", estart=es)
                        progs.append(fp.to_prog("%s/Res/%s/estart%s" % (mac, fp.pname(ds), {"!>": "maperr", "<=": "orelse", "<|": "or"}[es]), p, [[0]], sub=fp.fail_slots(ds)))
                # Option branches that become None through operators which are also Option methods (filter, zip, flatten)
                if fl == "Opt" and "async" not in mac and len(ds) <= 3 and max(ds) > 1 and (tier != "quick" or mac == "try_join" or len(ds) == 2):
                    for fo in ("filter", "zip", "flatten"):
                        p = fp.build(mac, ds, flavour="Opt", rich=True, failop=fo)
                        progs.append(fp.to_prog("%s/Opt/%s/%s" % (mac, fp.pname(ds), fo), p, [[0]], sub=fp.fail_slots(ds)))
    # wide steps (33, 35 and 65 active branches): every SINGLE failure position, one row each (array / chunk thresholds at 32, 64)
    for ds in ((1, 2) * 16 + (3,), (2,) * 34 + (1,), (2,) * 64 + (3,)):
        for mac in ("try_join", "try_join_spawn"):
            if len(ds) > 40 and (mac != "try_join" or tier == "quick" and False):
                continue
            p = fp.build(mac, ds, flavour="Res", rich=False, handler="map")  # (tuples above 12 elements have no Debug)
            rows = [[0]]
            for sl in fp.fail_slots(ds):
                r = [0] * (sl + 1)
                r[sl] = 1
                rows.append(r)
            progs.append(fp.to_prog("%s/Res/wide%d" % (mac, len(ds)), p, rows))
    return progs, profs, bound


def judge_classes(rep, fr, want):
    """like judge_family but only mismatches of class `want` ('value' or 'trace') are violations of this property"""
    rep.add("programs", fr.programs)
    rep.add("evaluations", fr.rows + len(fr.compile_violations))
    rep.add("input_rows", fr.rows)
    rep.add("distinct_nontrivial", fr.nontrivial)
    rep.add("build_s", round(fr.build_s, 1))
    rep.add("run_s", round(fr.run_s, 1))
    other = 0
    for p, rendered in fr.compile_violations:
        first = next((l for l in rendered.splitlines() if l.startswith("error")), rendered[:200])
        rep.violate("%s | compile" % p.meta["dsl"], "macro output does not compile where the reference does: %s [%s]" % (p.meta["dsl"], first),
                    {"program": p.id, "dsl": p.meta["dsl"], "reference": p.meta["ref"], "rustc": rendered})
    for p, mm, n in fr.mismatches:
        if mm.get("class") != want:
            # a mismatch whose VALUE differs is the sibling property's — unless (trace property) the macro also evaluated something
            # the reference did not evaluate at all on this row (an event site occurring more often than in the reference): that is
            # "something of a later step ran", whatever the value
            extra = False
            if want == "trace":
                from collections import Counter
                site = lambda e: e.split(":")[0]
                rc, mc = Counter(site(e) for e in mm["ref"].get("trace", [])), Counter(site(e) for e in mm["mac"].get("trace", []))
                extra = any(mc[k] > rc.get(k, 0) for k in mc)
            if not extra:
                other += 1
                continue
        rep.violate(
            "%s | row %s" % (p.meta["dsl"], mm["row"]),
            "%s on fault row %s: reference %s / macro %s" % (p.meta["dsl"], mm["row"], json.dumps(mm["ref"])[:300], json.dumps(mm["mac"])[:300]),
            {"program": p.id, "dsl": p.meta["dsl"], "reference": p.meta["ref"], "mismatch": mm, "mac_body": p.mac, "ref_body": p.ref, "pre": p.pre,
             "engine": "E2", "family": fr.name, "extra_header": fr.extra_header, "deps_override": fr.deps_override, "cmp": p.cmp, "row": mm["row"],
             "unit_test": unit_test_e2(p, mm["row"], fr.extra_header)},
        )
    rep.set("mismatches_of_other_class_left_to_sibling_property", other)


@check("C05", "fault_enumeration")
def c05(tier, rep):
    from . import fam_profiles as fp

    progs, profs, bound = tryfail_family(tier)
    fr = e2.run_family("tryfail", progs, extra_header=fp.HEADER)
    judge_classes(rep, fr, "value")
    run_threads(rep, tier, "c05", "try macro under a thread schedule", keep=lambda w: not w.startswith("per-branch event") and "earlier step" not in w)
    run_async(rep, tier, "c05", "try macro under a wake-up order", keep=lambda w: not w.startswith("per-branch event") and "earlier step" not in w)
    rep.set("profiles", len(profs))
    rep.set("rule", "%s x 6 try macros x {Result, Option} (async: Result); rows = EVERY subset of (branch, step) positions marked failing; oracle: result value = the lowest-numbered branch failing in the earliest failing step, payload unchanged (async kinds: any branch failing in that step), all-success rows = Some/Ok of the tuple; non-trivial program = trace non-empty and >= 2 distinct outcomes" % bound)
    sample_family(rep, progs, fr)


@check("C06", "fault_enumeration")
def c06(tier, rep):
    from . import fam_profiles as fp

    progs, profs, bound = tryfail_family(tier)
    fr = e2.run_family("tryfail", progs, extra_header=fp.HEADER)
    judge_classes(rep, fr, "trace")
    run_threads(rep, tier, "c05", "try macro under a thread schedule", keep=lambda w: not w.startswith("result differs"))
    run_async(rep, tier, "c05", "try macro under a wake-up order", keep=lambda w: not w.startswith("result differs"))
    rep.set("profiles", len(profs))
    rep.set("rule", "%s x 6 try macros x {Result, Option}; every step >= 1 of every branch carries a block capture, an error-side callback/operand and a non-closure operand with a visible evaluation; rows = EVERY subset of failing (branch, step) positions; oracle on the event trace: equal to the reference's (sequential kinds: full order; spawn kinds: per-branch projections + step monotonicity; async: per-branch prefix), i.e. nothing of a later step and no handler after a failing step, the failing step complete in sync/spawn kinds" % bound)
    sample_family(rep, progs, fr)


# -------------------------------------------------------------------------------------------------
def confirm_compile_failures(rep, cviol, header, wrap):
    """A program whose macro body does not compile against a shim (vstd / vtokio) is a violation only if it does not compile
    against the real std / tokio either; otherwise the shim is incomplete: the program is skipped and the gap reported."""
    if not cviol:
        return
    progs = []
    for i, (q, rendered) in enumerate(cviol):
        d = q.meta.get("dsl")
        if not d:
            continue
        progs.append(e2.Prog("shimcheck%d" % i, "String::new()", wrap % d, [[0]], "Value", meta={"dsl": d, "ref": q.meta.get("ref")}))
    if not progs:
        return
    fr = e2.run_family("shimcheck", progs[:40], shards=4, extra_header=header)
    real = {p.meta["dsl"] for p, _ in fr.compile_violations}
    for q, rendered in cviol:
        d = q.meta.get("dsl")
        if d in real:
            rep.violate("%s | compile" % d, "macro output does not compile where the reference does: %s" % d, {"rustc": rendered, "dsl": d})
        else:
            rep.exhaustive = False
            rep.notes.append("skipped (compiles against the real library but not against the exploration shim — shim gap, not a verdict): %s" % (d or q.id)[:200])


def report_hung(rep, res, progs, what):
    by = {p.id: p for p in progs}
    for first, rest in res.hung:
        rep.exhaustive = False
        if first is None:
            raise MachineryError("an exploration shard timed out without an identifiable program")
        p = by[first]
        rep.violate("%s | does not terminate" % p.meta.get("dsl", first), "%s: an execution of this program did not terminate within the shard time limit - the caller is left blocked (a poll or thread of the generated code never returns) [%s]" % (what, p.meta.get("dsl", first)[:400]),
                    {"program": first, "dsl": p.meta.get("dsl"), "mac_body": p.mac, "ref_body": p.ref, "not_run_because_of_it": rest[1:]})


def run_threads(rep, tier, setname, what, keep=None):
    """build the E3-T harness (all sets share one binary) and run one set"""
    from . import e3t, fam_threads

    sets = fam_threads.all_sets(tier)
    exe, cviol = e3t.build("profiles_%s" % tier, sets)
    progs = sets[setname]
    progs = [p for p in progs if p.id not in {q.id for q, _ in cviol}]
    res = e3t.run_set(exe, setname, progs)
    report_hung(rep, res, progs, what)
    rep.add("thread_programs", res.programs)
    rep.add("thread_rows", res.rows)
    rep.add("schedules", res.executions)
    rep.add("states", res.states)
    rep.add("transitions", res.decisions + res.executions)
    rep.add("traces_validated_against_impl", res.executions)
    rep.add("evaluations", res.executions)
    rep.add("distinct_nontrivial", res.nontrivial)
    rep.set("max_operation_orders_of_one_program_row", res.max_orders)
    rep.set("scheduler_selftest", res.selftest)
    rep.add("e3t_run_s", round(res.run_s, 1))
    if res.capped:
        rep.exhaustive = False
        rep.notes.append("%d thread programs hit the execution cap" % res.capped)
    confirm_compile_failures(rep, [(q, r) for q, r in cviol if q.id in {p.id for p in sets[setname]}], "", "let x = %s;\nformat!(\"{:?}\", x)")
    for p, v, n in res.violations:
        if keep is not None and not keep(v["what"]):
            rep.add("violations_left_to_sibling_property", 1)
            continue
        rep.violate(
            "%s | row %s | caller %s" % (p.meta.get("dsl", p.id), v["row"], v["caller"]),
            "%s: %s [%s; fault row %s, caller %s, schedule %s; %d failing schedules]" % (what, v["what"], p.meta.get("dsl", p.id)[:300], v["row"], v["caller"], v["schedule"], n),
            {"program": p.id, "dsl": p.meta.get("dsl"), "reference": p.meta.get("ref"), "execution": v, "mac_body": p.mac, "ref_body": p.ref, "engine": "E3-T",
             "tprog": {"depths": p.depths, "callers": p.callers, "check_threads": p.check_threads, "names": p.names, "pbound": p.pbound, "maxd": p.maxd},
             "unit_test": "// harness crate: #![no_std] extern crate vstd as std; (see vlib/e3t.py HEADER); replays ONE schedule with the scheduler, no explorer\nfn with_macro() -> String {\n%s\n}\n#[test]\nfn replay() {\n    vrt::set_inp(&%s);\n    let ex = vsched::run_one(with_macro, %s, &%s);\n    println!(\"{:?} {:?} deadlock={}\", ex.value, ex.log, ex.deadlock);\n    // expected (reference): value %s\n}\n"
             % (p.mac, json.dumps(v["row"]), "None" if "None" in v["caller"] else "Some(%s)" % json.dumps(v["caller"].replace('Some("', "").replace('")', ""), ensure_ascii=False), json.dumps(v["schedule"]), json.dumps(v.get("reference_value")))},
        )
    for p in [q for q in progs if q.id in res.results][:: max(1, len(progs) // 3)][:3]:
        rep.sample({"dsl": p.meta.get("dsl"), "execution": res.results[p.id].get("sample"), "schedules": res.results[p.id]["executions"]})
    return res


@check("C08", "model_checking")
def c08(tier, rep):
    run_threads(rep, tier, "c08", "thread-spawning macro")
    run_threads(rep, tier, "c05", "thread-spawning try macro with failing branches", keep=lambda w: "thread" in w or "caller" in w or "deadlock" in w)
    rep.set("rule", "flat depth profiles n<=3,d<=3 x {join_spawn,try_join_spawn,spawn,try_spawn} x callers {main,w7,unnamed} + nested spawn macros (depth 2, 3) + try programs with EVERY failure subset; EVERY order of visible operations (baton scheduler over the real generated code, ::std::thread resolved to the vstd shim); per execution: no deadlock, thread name = <caller>_join_<branch index>, distinct threads per active branch, single-active-branch steps on the caller, the caller acts only when every thread of the step has finished; non-trivial program = >= 2 distinct operation orders")


@check("C03", "model_checking")
def c03(tier, rep):
    # a `~` starts a new step whatever the number of branches: single-branch programs (and programs whose later steps have a single
    # active branch) in all 8 kinds, every step with a visible initial value / capture / operand / callback — the sequential macros
    # leave exactly the reference's trace, the others its per-branch projections in step order
    from . import fam_profiles as fp

    sp = []
    for ds in ((2,), (3,), (4,), (1, 3), (3, 1)):
        for mac in KINDS8:
            is_try = mac.startswith("try")
            for rich in (False, True):
                p = fp.build(mac, ds, flavour="Res" if is_try else None, init_ev=True, rich=rich)
                sp.append(fp.to_prog("single/%s/%s/%d" % (mac, fp.pname(ds), rich), p, [[0]] if is_try else fp.offset_rows()))
    frs = e2.run_family("c03single", sp, extra_header=fp.HEADER)
    judge_family(rep, frs)
    run_threads(rep, tier, "c03", "step barrier (threads)")
    run_async(rep, tier, "c09", "step barrier (async)", keep=lambda w: "earlier step" in w or "event sequences" in w or w.startswith("result differs"))
    rep.set("rule", "single-branch programs of depth 2-4 and profiles (1,3) / (3,1) in all 8 kinds, plain and capture-rich, with a visible initial value (E2: full trace in the sequential macros, per-branch projections in step order elsewhere); depth profiles n<=3,d<=3 x 4 thread-spawning macros, plain / capture-rich / deferred-wrapper steps; EVERY order of visible operations; per execution: no event of step k+1 before the last event of step k (captures, operands, callbacks alike), each branch's per-step arguments equal the reference's (continues from its own value), result equal; non-trivial program = >= 2 distinct operation orders")


@check("C18", "fault_enumeration")
def c18(tier, rep):
    run_threads(rep, tier, "c18", "panic propagation (threads)")
    run_async(rep, tier, "c18", "panic propagation (async)")
    # E2 sweep: EVERY event site of a program (operands, callbacks, block captures incl. those inside wrappers whose closure is never
    # invoked, inspections, handlers) panics once, in the reference and in the macro alike
    from . import fam_captures as fcap, fam_profiles as fp, fam_wrappers

    def sweep(progs):
        # free-running OS threads of a panicked evaluation outlive it and would log into the next run: the thread-spawning kinds
        # are swept under the controlled scheduler (E3-T) only
        progs = [q for q in progs if q.meta.get("macro") not in ("join_spawn", "try_join_spawn", "spawn", "try_spawn")]
        return [e2.Prog(q.id, q.ref, q.mac, q.rows, q.cmp, pre=q.pre, meta=q.meta, sub=[x for x in q.sub if len(q.sub) <= 3] + [61]) for q in progs]

    cp, _ = fcap.chain_programs(tier)
    cp = [q for q in cp if q.id.endswith("/b2") and ("/d1/" in q.id or tier != "quick")]
    fr = e2.run_family("c18chains", sweep(cp))
    judge_family(rep, fr)
    wp, _ = fam_wrappers.programs(tier)
    wp = [q for q in wp if "cap/" in q.id]
    fr2 = e2.run_family("c18wrappers", sweep(wp))
    judge_family(rep, fr2)
    pp = fcap.profile_programs(tier)
    hp = []
    for ds in fp.profiles(3, 2):
        for mac in KINDS8:
            is_try = mac.startswith("try")
            q = fp.build(mac, ds, flavour="Res" if is_try else None, handler=("map" if is_try else "then"), hpos=len(ds), rich=(len(ds) <= 2))
            hp.append(fp.to_prog("h/%s/%s" % (mac, fp.pname(ds)), q, [[0]] if is_try else fp.offset_rows()))
            if sum(ds) <= 3:
                # the handler OPERAND has a visible evaluation of its own (a block / factory call): it panics too, with every subset
                # of failing branches (a failing branch must not swallow the panic of an expression that is evaluated regardless)
                for hk in (("map", "and_then") if is_try else ("then",)):
                    q = fp.build(mac, ds, flavour="Res" if is_try else None, handler=hk, hexpr_ev=True)
                    hp.append(fp.to_prog("hx/%s/%s/%s" % (mac, fp.pname(ds), hk), q, [[0]], sub=fp.fail_slots(ds) if is_try else ()))
    lb = let_lazy_bool_programs(macs=("join",))
    fr3 = e2.run_family("c18profiles", sweep(pp + hp + lb), extra_header=fp.HEADER)
    judge_family(rep, fr3)
    rep.set("panic_sweep_programs", len(cp) + len(wp) + len(pp) + len(hp) + len(lb))
    rep.set("rule", "E2 sweep: named branches whose initial value has top-level lazy boolean operators (every reached operand panics once, on all 8 input rows); capture-only chains of length <= 2, captures inside wrappers (closure invoked or not), capture-rich depth profiles and handler programs in all 8 macro kinds: for EVERY distinct event site of the fault-free trace one run in which that event panics — the macro evaluation must panic, nothing of a later step may run, the sequential macros leave exactly the reference's trace; E3: depth profiles x 4 thread-spawning macros x EVERY single panic position (x every failure subset for small try programs) x EVERY order of visible operations; per execution: the macro evaluation panics on the caller, no deadlock, no event of a later step")


# -------------------------------------------------------------------------------------------------
def run_async(rep, tier, setname, what, keep=None):
    from . import e3a, fam_async

    sets = fam_async.all_sets(tier)
    exe, cviol = e3a.build("profiles_%s" % tier, sets)
    bad = {q.id for q, _ in cviol}
    progs = [p for p in sets[setname] if p.id not in bad]
    res = e3a.run_set(exe, setname, progs)
    report_hung(rep, res, progs, what)
    rep.add("async_programs", res.programs)
    rep.add("async_rows", res.rows)
    rep.add("decision_sequences", res.executions)
    rep.add("states", res.states)
    rep.add("transitions", res.decisions)
    rep.add("traces_validated_against_impl", res.executions)
    rep.add("evaluations", res.executions)
    rep.add("distinct_nontrivial", res.nontrivial)
    rep.add("unpruned_crosscheck_programs", res.crosschecks)
    rep.add("unpruned_crosscheck_executions", res.unpruned_executions)
    rep.add("e3a_run_s", round(res.run_s, 1))
    if res.capped:
        rep.exhaustive = False
        rep.notes.append("%d async programs hit the execution cap" % res.capped)
    from . import fam_async as _fa

    confirm_compile_failures(rep, [(q, r) for q, r in cviol if q.id in {p.id for p in sets[setname]}], _fa.REAL_HEADER, "let x = trt_mt().block_on(%s);\nformat!(\"{:?}\", x)")
    for p, v, n in res.violations:
        if keep is not None and not keep(v["what"]):
            rep.add("violations_left_to_sibling_property", 1)
            continue
        rep.violate(
            "%s | row %s" % (p.meta.get("dsl", p.id), v["row"]),
            "%s: %s [%s; fault row %s, decisions %s; %d failing decision sequences]" % (what, v["what"], p.meta.get("dsl", p.id)[:300], v["row"], v["decisions"][:300], n),
            {"program": p.id, "dsl": p.meta.get("dsl"), "reference": p.meta.get("ref"), "execution": v, "mac_body": p.mac, "ref_body": p.ref, "engine": "E3-A",
             "aprog": {"gates": p.gates, "gate_of": p.gate_of, "depths": p.depths, "spurious": p.spurious, "maxd": p.maxd}},
        )
    for p in [q for q in progs if q.id in res.results][:: max(1, len(progs) // 3)][:3]:
        rep.sample({"dsl": p.meta.get("dsl"), "execution": res.results[p.id].get("sample"), "decision_sequences": res.results[p.id]["executions"]})
    return res


@check("C09", "model_checking")
def c09(tier, rep):
    run_async(rep, tier, "c09", "async macro")
    # conformance of the seams (tokio shim, gates): the same programs free-running on REAL tokio / futures executors
    from . import fam_async

    rp = fam_async.real_tokio_programs(tier)
    fr = e2.run_family("c09real", rp, extra_header=fam_async.REAL_HEADER)
    for p, rendered in fr.compile_violations:
        rep.violate("%s | compile (real tokio)" % p.meta["dsl"], "macro output does not compile against real tokio: %s" % p.meta["dsl"], {"rustc": rendered})
    for p, mm, n in fr.mismatches:
        rep.violate("%s | real tokio row %s" % (p.meta["dsl"], mm["row"]), "on REAL tokio/futures (free-running, pending points wake themselves) the macro disagrees with the reference: %s / %s [%s]" % (json.dumps(mm["ref"])[:200], json.dumps(mm["mac"])[:200], p.meta["dsl"][:300]),
                    {"program": p.id, "dsl": p.meta["dsl"], "mismatch": mm, "mac_body": p.mac, "ref_body": p.ref, "engine": "E2", "family": fr.name, "extra_header": fr.extra_header, "cmp": p.cmp, "row": mm["row"], "pre": ""})
    rep.add("real_tokio_conformance_runs", fr.rows)
    rep.add("traces_validated_against_impl", fr.rows)
    rep.set("rule", "gated depth profiles x 6 async macros x gate placements {one per branch-step, two in branch 0, none in branch 0} + awaited handlers; explicit-state search over ALL decision sequences (poll root / poll woken task / release any pending point before or after it was polled / spurious poll), canonical-state pruning cross-checked against the unpruned exploration on the small programs; per state: progress invariant at every quiescent point; per execution: lazy construction, no hang, result and per-branch traces equal the reference; non-trivial program = >= 2 distinct logs")


# -------------------------------------------------------------------------------------------------
import re

F4_RE = re.compile(r"^lazy_branches\(.*?\) transpose_results\(.*?\) custom_joiner\(.*?\) futures_crate_path\(.*?\) (futures_crate_path|custom_joiner|transpose_results|lazy_branches)\(")
F4_KEY = "options written in the order lazy_branches, transpose_results, custom_joiner, futures_crate_path followed by a fifth option occurrence"


def e1_mode(rep, exe, args, prop, label):
    from . import e1

    out, hang = e1.run(exe, args)
    if hang:
        cur = out[-1].get("inputs") if out else []
        rep.violate("hang | %s" % (cur,), "expansion did not terminate within 20 s on one of the inputs %s" % (cur,), {"inputs": cur, "mode": args})
        return None
    d = out[-1]
    rep.add("evaluations", d.get("expansions", 0))
    rep.add("inputs", d.get("sequences", d.get("inputs", 0)))
    rep.add("e1_secs", d.get("secs", 0))
    for v in d.get("viols", []):
        if v["what"].startswith("MACHINERY"):
            raise MachineryError("%s: %s on %s" % (label, v["what"], v["input"]))
        key = "%s | %s" % (v["input"], v.get("config", ""))
        if F4_RE.match(v["input"]) and "duplicated option" in v["what"]:
            key = F4_KEY
        rep.violate(key, "%s: %s [input `%s`, config %s]" % (label, v["what"], v["input"], v.get("config")), {"input": v["input"], "config": v.get("config"), "what": v["what"], "outcome": v.get("outcome"), "engine": "E1", "mode": args})
    rep.add("violating_expansions", d.get("nviol", 0))
    for s in d.get("samples", [])[:3]:
        rep.sample(s)
    return d


ALL8 = "join,try_join,join_spawn,try_join_spawn,join_async,try_join_async,join_async_spawn,try_join_async_spawn"


@check("C15", "exploration")
def c15(tier, rep):
    from . import e1

    exe = e1.build()
    if tier == "quick":
        runs = [(["c15", "std", 5, "join,try_join"], "21 symbols, length<=5, join/try_join"), (["c15", "full", 3, ALL8], "32 symbols (all operators, and_then, tuple let), length<=3, 8 configs"), (["c15", "opts", 6, "join,try_join_async"], "4 options + x |> , then, length<=6")]
    else:
        runs = [(["c15", "std", 6, "join,try_join"], "21 symbols, length<=6, join/try_join"), (["c15", "full", 4, ALL8], "32 symbols, length<=4, 8 configs"), (["c15", "opts", 8, "join,try_join_async"], "4 options + x |> , then, length<=8")]
    runs.append((["c15", "wrap", 9 if tier == "quick" else 10, "join,try_join_async"], "wrapper balance: {x, |>, ~, >>>, <<<, comma}, length<=%d, join/try_join_async" % (9 if tier == "quick" else 10)))
    runs.append((["c15", "sizes", ALL8], "1..40, 63..66, 127..130, 255..257 branches / 1..40, 63..66, 127..129 steps (plain, captures, let names, handler) x 8 configs: valid expansion; 13 kinds of punctuation that cannot start an operand directly after every operand-taking operator (plain, ~, inside a wrapper) x 6 followers x 3 contexts x 8 configs: rejected"))
    runs.append((["c15", "lets", ALL8], "depth profiles n<=3,d<=3 x every assignment of {none, let, let mut, let ref, let r#keyword, let mut r#keyword} to the branches x handler x 8 configs"))
    runs.append((["c15", "mid", ALL8], "every operator (plain, ~, wrapper opener, <<<) in front of each separating comma of ^@ / ?^@ / typed <-> x 4 continuations x 8 configs: rejected"))
    classes = {}
    for args, label in runs:
        d = e1_mode(rep, exe, args, "C15", "totality")
        if d:
            for c in d["classes"]:
                k = "%s/%s" % (c["recogniser"], c["outcome"])
                classes[k] = classes.get(k, 0) + c["n"]
    rep.set("outcome_classes", classes)
    rep.set("distinct_nontrivial", sum(v for k, v in classes.items() if not k.startswith("unsure/syn_error")))
    rep.set("rule", "EVERY sequence over the DSL symbol alphabets (%s), each expanded through join_impl's parse + generate entry points under catch_unwind with a termination watchdog; oracle: outcome is ok-with-syntactically-valid-output, syn error or one of the four documented configuration rejections; a conservative reference recogniser additionally demands rejection of structurally invalid inputs (E1-E7) and acceptance of inputs that fit the confident grammar; distinct_nontrivial = expansions not in the class (recogniser unsure, syn error)" % "; ".join(l for _, l in runs))


# -------------------------------------------------------------------------------------------------
def e1_sharded(rep, exe, args, label, keyf=None):
    from . import e1

    outs, hang = e1.run_sharded(exe, args)
    if hang:
        rep.violate("hang | %s" % (args,), "%s: an expansion did not terminate" % label, {"mode": args})
        return []
    for d in outs:
        rep.add("evaluations", d.get("expansions", 0))
        for v in d.get("viols", []):
            key = "%s | %s | %s" % (v.get("input"), v.get("config"), v.get("history"))
            rep.violate(key, "%s: %s [%s!{ %s }; history %s]" % (label, v["what"], v.get("config"), v.get("input"), v.get("history")), dict(v, engine="E1", mode=args))
    return outs


@check("C20", "model_checking")
def c20(tier, rep):
    from . import e1
    from .common import REPO

    exe = e1.build()
    which, L = ("core", 3) if tier == "quick" else ("all", 2)
    outs = e1_sharded(rep, exe, ["c20", "hist", L, which], "purity (histories)")
    hist = sum(d["histories"] for d in outs)
    rep.set("histories", hist)
    rep.set("history_units", outs[0]["units"] if outs else 0)
    if tier != "quick":
        outs2 = e1_sharded(rep, exe, ["c20", "hist", 3, "core"], "purity (histories)")
        hist += sum(d["histories"] for d in outs2)
        rep.set("histories", hist)
    outs4 = e1_sharded(rep, exe, ["c20", "hist", 3 if tier == "quick" else 4, "rel"], "purity (histories of related invocations)")
    hist += sum(d["histories"] for d in outs4)
    rep.set("related_units", outs4[0]["units"] if outs4 else 0)
    outs3 = e1_sharded(rep, exe, ["c20", "typing"], "purity (typing sessions)")
    rep.set("typing_histories", sum(d["histories"] for d in outs3))
    rep.set("typing_prefixes", sum(d["prefixes"] for d in outs3))
    rep.set("typing_prefixes_rejected", sum(d["prefixes_rejected"] for d in outs3))
    hist += sum(d["histories"] for d in outs3)
    rep.set("histories", hist)
    exeh = e1.build(hooks=True)
    pb = 1 if tier == "quick" else 2
    outs = e1_sharded(rep, exeh, ["c20", "conc", pb, "core"], "purity (concurrent expansions)")
    rep.set("concurrent_pairs", sum(d["pairs"] for d in outs))
    rep.set("schedules", sum(d["schedules"] for d in outs))
    rep.set("states", sum(d["states"] for d in outs) + hist)
    rep.set("transitions", sum(d["decisions"] for d in outs) + sum(d.get("expansions", 0) for d in outs))
    rep.set("traces_validated_against_impl", sum(d["schedules"] for d in outs) + hist)
    rep.set("yield_points_per_execution", max([d["yield_points_per_execution"] for d in outs] or [0]))
    rep.set("preemption_bound", pb)
    if any(d["capped"] for d in outs):
        rep.exhaustive = False
    unc = sum(d.get("uncontrolled", 0) for d in outs)
    rep.set("schedules_that_left_the_scheduler", unc)
    if unc:
        # an expansion blocked on a real lock held by the other (parked) expansion: that execution ran free from there on (its outputs
        # are still compared); the interleavings behind it are not covered
        rep.exhaustive = False
        rep.assumptions.append("%d interleavings could not be controlled: an expansion blocked on a lock held by the concurrently running one (state shared between expansions); they ran free and their outputs were compared" % unc)
    rep.set("distinct_nontrivial", hist + sum(d["schedules"] for d in outs))
    # assumption check (reported, never judged): hidden state candidates in the sources
    cands = []
    for root, _, files in os.walk(os.path.join(REPO, "join_impl", "src")):
        for f in files:
            if f.endswith(".rs") and f != "verif_hook.rs":
                for n, line in enumerate(open(os.path.join(root, f), errors="replace"), 1):
                    if re.search(r"\b(static\s+(mut\s+)?[A-Z_]+\s*:|thread_local!|lazy_static!|HashMap|HashSet|RandomState)", line) and not line.strip().startswith("//"):
                        cands.append("%s:%d: %s" % (os.path.relpath(os.path.join(root, f), REPO), n, line.strip()[:120]))
    rep.set("hidden_state_candidates_in_sources", cands[:20])
    rep.assumptions.append("interleavings are explored at the granularity of the verif_hooks yield points (every name construction, step/chain generation, parser position); a race confined between two yield points is invisible")
    rep.set("rule", "typing sessions: for every corpus invocation E in every accepted config and EVERY proper top-level token prefix P of E (mostly rejected, half-typed invocations): histories [P, E, P] and the cumulative sessions P1..Pn,E / E,Pn..P1 in one process — E equals its fresh-process output, P's outcome is the same before and after; the corpus contains related invocations (the same text in expression and in type position, rejected prefixes of accepted invocations, diagnostics count as output); histories: every sequence up to length 3 (thorough 4) over the 16 related invocations, and EVERY sequence of expansions up to length %d over %s (input, config) units in one process, each output compared with the output of the same invocation as first expansion of a fresh process; interleavings: every ordered pair of core units expanded by two threads under the baton scheduler at the verif_hooks yield points, all schedules with <= %d preemptions, each thread's output compared with its sequential baseline" % (L, which, pb))
    rep.sample({"unit": "join!{ a |> f ?? g => h }", "baseline": "fresh child process"})


@check("C14", "exploration")
def c14(tier, rep):
    from . import e1

    exe = e1.build()
    L = 3 if tier == "quick" else 4
    d = e1_mode(rep, exe, ["c14", L, "abcd"], "C14", "split points")
    if d:
        rep.set("per_family", d["per_part"])
        rep.set("operands_excluded_by_premise", d["operands_excluded_by_premise"])
        rep.set("distinct_nontrivial", d["inputs"])
    rep.set("rule", "D: a handler (then / map / and_then) directly after a branch whose last operand is a block (4 block forms, every operator with an expression operand, with / without the optional comma, 1-3 branches, a further branch after the handler): the same structure as with the comma; A: EVERY chain over the 70 operator instances (22 spellings, typed =>[] / <->, <<<, each with/without ~, 10 wrapper forms) with wrappers balanced per step, length <= %d, operands = unique markers, rendered spaced and glued; B: 44 adversarial expression operands, 8 type operands, 5 member operands (closure return types, turbofish commas, generic closers, look-alikes in delimiters / macro calls / literals, comparisons and shifts) x every operand position of every operator x every following operator instance x deferred, also as initial value, let value and handler expression; C: 1-3 branches x handler at every position x let subsets x trailing comma; oracle: parsed structure (combinator, deferred, wrap/unwrap, operand tokens, let ident, branch count, handler) equals the structure the input was rendered from; an operand is admitted only if an independent premise check finds no top-level split point" % L)


@check("C02", "exploration")
def c02(tier, rep):
    from . import fam_wrappers

    progs, stats = fam_wrappers.programs(tier)
    fr = e2.run_family("c02", progs)
    judge_family(rep, fr)
    ap = fam_wrappers.async_wrapper_programs(tier)
    fra = e2.run_family("c02async", ap, extra_header=fam_wrappers.ASYNC_PRE)
    judge_family(rep, fra)
    rep.set("async_wrapper_programs", len(ap))
    from . import fam_costs, fam_names

    sp = [p for p in fam_costs.borrow_programs() if "shared-local" in p.id or "wrapper-closure" in p.id]
    frs = e2.run_family("c02shared", sp, extra_header=fam_names.NEST_HEADER + fam_costs.RC_PRE)
    judge_family(rep, frs)
    rep.set("wrapper_operator_kind_pairs", len(stats["wrappers"]))
    rep.set("rule", "each of the ten wrapper-capable operators on every kind it types on (25 operator x kind pairs) x every inner chain of length <= 2 (incl. empty, nested wrappers up to depth %d, a block capture as first inner operand) x closing modes {explicit <<<, <<< + outer operator, <<< + ~outer operator, open to branch end, open to step end + ~operator, ~wrapper open, ~wrapper closed} x {join!, try_join!}, as two-branch programs whose second branch has captures in both steps; value and FULL trace against the reference `.x(|v| v inner) rest`; async: the seven wrapper operators of the futures table (|>, ??, =>, <=, !> on futures; |>, ?>, ?|> on streams) x inner chains x {closed, open / followed by a collecting step} in join_async!/try_join_async!; wrapper closures sharing a caller/async-block local with a later step (the closure must borrow, not copy); non-trivial = trace non-empty and >= 2 outcomes" % (2 if tier == "quick" else 3))
    sample_family(rep, progs, fr)


@check("C11", "exploration")
def c11(tier, rep):
    from . import fam_captures as fc, fam_profiles as fp, fam_wrappers

    progs, ops = fc.chain_programs(tier)
    fr = e2.run_family("c11chains", progs)
    judge_family(rep, fr)
    pp = fc.profile_programs(tier)
    fr2 = e2.run_family("c11profiles", pp, extra_header=fp.HEADER)
    judge_family(rep, fr2)
    wp, _ = fam_wrappers.programs(tier)
    wp = [p for p in wp if "cap/" in p.id]
    fr3 = e2.run_family("c11wrappers", wp)
    judge_family(rep, fr3)
    from . import fam_options as fo

    op = fo.capture_programs(tier)
    fr4 = e2.run_family("c11options", op, extra_header=fp.HEADER + fo.PRE)
    judge_family(rep, fr4)
    # two-digit branch and action indices: a capture on every action of 11/12 branches x 11/12 actions (an order taken from the
    # generated names — `__ew0_10_0` < `__ew0_1_0` — is not the branch-then-position order)
    from . import fam_names as fn

    dn = [q for q in fn.dense_programs(tier) if q.id.startswith(("dense/join/", "dense/try_join/", "resmix/", "dense/fold12"))]
    from . import fam_captures as _fcap
    dn += _fcap.wrapper_order_programs()
    fr5 = e2.run_family("c11dense", dn, extra_header=fn.NEST_HEADER)
    judge_family(rep, fr5)
    rep.set("operators_with_captured_operands", sorted(ops))
    rep.set("rule", "(f) block operands before a wrapper opens, inside it (one and two levels deep) and after it closes in one branch-step, each reading a counter the previous one bumped (4 shapes x instant / deferred x join!, try_join!, join_spawn!); (e) capture-dense grids with two-digit branch / action indices (2x11 .. 12x12, fold captures in 12 branches); (d) capture-rich depth profiles behind custom_joiner / lazy_branches(true) (the lazy sequential joiner runs the branch closures in reverse order, so a capture left inside its branch closure is seen after another branch's expressions); (a) every typed chain of length <= 2 whose expression operands (both operands of fold/try_fold) and initial value are ALL written as block captures, with ~ before none / the last / every operator, in 2- and 3-branch join! programs next to capture-dense Result branches (a distinct-constant capture on every action, Process and Err arms, mirrored (branch, action) positions); (b) depth profiles n<=3,d<=3 with a capture in every step of every branch in all 8 macro kinds; (c) captures inside wrappers (C02 family); oracle: value and trace equal the reference, which evaluates every capture once, after the previous step, before any branch expression of its step, in branch-then-position order")
    sample_family(rep, progs, fr)


@check("C12", "exploration")
def c12(tier, rep):
    from . import dsl, fam_profiles as fp
    import itertools

    progs = []
    dmax = 3 if tier == "quick" else 4
    for ds in fp.profiles(3, dmax):
        if max(ds) < 2 or sum(ds) > 9:
            continue
        n = len(ds)
        readers = [(b, k) for b in range(n) for k in range(1, ds[b])]
        subsets = [s for r in range(1, n + 1) for s in itertools.combinations(range(n), r)]
        for mac in KINDS8:
            if "async" in mac and tier == "quick" and (sum(ds) > 6 or n == 3 and len(set(ds)) == 1):
                continue
            for sub in subsets:
                if tier == "quick" and "spawn" in mac and len(sub) == 2 and n == 3:
                    continue
                for fl in (("Res", "Opt") if mac.startswith("try") and "async" not in mac else ("Res",)):
                    if fl == "Opt" and (tier == "quick" and len(sub) != n):
                        continue
                    lets = [(b, (b + len(sub)) % 2 == 1) for b in sub]
                    p = fp.build(mac, ds, flavour=fl if mac.startswith("try") else None, lets=lets, readers=readers)
                    progs.append(fp.to_prog("%s/%s/%s/%s" % (mac, fl, fp.pname(ds), "".join(map(str, sub))), p, fp.offset_rows()))
                    if fl == "Res" and len(sub) == n:
                        # the initial values are written as block captures, directly followed by the first `~` operator
                        p = fp.build(mac, ds, flavour="Res" if mac.startswith("try") else None, lets=lets, readers=readers, init_block=True)
                        progs.append(fp.to_prog("%s/%s/%s/%s/initblock" % (mac, fl, fp.pname(ds), "".join(map(str, sub))), p, fp.offset_rows()))
                    if fl == "Res" and len(sub) == n and not ("async" in mac and "spawn" in mac):
                        # every later step is a deferred, explicitly closed wrapper whose inner operand is the reading capture
                        p = fp.build(mac, ds, flavour="Res" if mac.startswith("try") else None, lets=lets, readers=readers, wrap=True)
                        progs.append(fp.to_prog("%s/%s/%s/%s/wrap" % (mac, fl, fp.pname(ds), "".join(map(str, sub))), p, fp.offset_rows()))
                    if fl == "Res" and mac in ("try_join", "try_join_spawn") and len(sub) == n:
                        # every later step starts with a DEFERRED error-side operator (`~<=`) whose block operand is the reader
                        p = fp.build(mac, ds, flavour="Res", lets=lets, readers=readers, err_defer_cap=True)
                        progs.append(fp.to_prog("%s/%s/%s/%s/errdefer" % (mac, fl, fp.pname(ds), "".join(map(str, sub))), p, fp.offset_rows()))
                    if fl == "Res" and mac in ("try_join", "try_join_spawn") and len(sub) == n and max(ds) >= 3:
                        p = fp.build(mac, ds, flavour="Res", lets=lets, readers=readers, err_after=True)
                        progs.append(fp.to_prog("%s/%s/%s/%s/err" % (mac, fl, fp.pname(ds), "".join(map(str, sub))), p, fp.offset_rows()))
    # the name reaches the macro through a macro_rules! template (its hygiene context differs from the template's): captures
    # written with that name must still see the generated binding, not a same-named outer variable
    for mac, w, op in (("join", "%s", "~->"), ("try_join", "Some(%s)", "~|>"), ("join_spawn", "%s", "~->"), ("try_join_async", "ready(Ok::<i32, i32>(%s))", "~=>")):
        is_async = "async" in mac
        stepv = (lambda e: "ready(Ok::<i32, i32>(%s))" % e) if is_async else (lambda e: e)
        rd = "__N.clone()" if not mac.startswith("try") else ("__N.clone().unwrap()" if not is_async else "__N.clone().unwrap()")
        tpl = "macro_rules! via { ($n:ident) => { %s! { let $n = %s %s |v: i32| %s, %s %s { let s = %s; move |v: i32| %s } } } }" % (
            mac, w % 'lg("0.0.i", 1)', op, stepv("v + 1"), w % "2", op, rd.replace("__N", "$n"), stepv("v + s"))
        ref = dsl.program_ref(dsl.Program(mac, [
            dsl.Branch(dsl.O(w % 'lg("0.0.i", 1)'), [dsl.Op(op[1:], [dsl.O("|v: i32| %s" % stepv("v + 1"))], deferred=True)], let=("nm", False)),
            dsl.Branch(dsl.O(w % "2"), [dsl.Op(op[1:], [dsl.B("let s = %s; move |v: i32| %s" % (rd.replace("__N", "nm"), stepv("v + s")))], deferred=True)]),
        ], flavour=("Opt" if mac == "try_join" else "Res") if mac.startswith("try") else None), anyof=(mac == "try_join_async"))
        pro = "let nm = 3000i32;\n" if not mac.startswith("try") else ("let nm = Some(3000i32);\n" if mac == "try_join" else "let nm = Ok::<i32, i32>(3000);\n")
        if is_async:
            rb = pro + "let x = futures::executor::block_on(%s);\nformat!(\"{} outer={:?}\", x, nm)" % ref
            mb = pro + "let x = futures::executor::block_on(via!(nm));\nformat!(\"{:?} outer={:?}\", x, nm)"
        else:
            rb = pro + "let x = %s;\nformat!(\"{:?} outer={:?}\", x, nm)" % ref
            mb = pro + "let x = via!(nm);\nformat!(\"{:?} outer={:?}\", x, nm)"
        progs.append(e2.Prog("hygiene/%s" % mac, rb, mb, [[0]], "Proj" if mac == "join_spawn" else ("TryAsync" if is_async else "Full"), pre=tpl, meta={"macro": mac, "dsl": tpl + " via!(nm)", "ref": ref}))
    progs += let_value_shape_programs()
    fr = e2.run_family("c12", progs, extra_header=fp.HEADER)
    judge_family(rep, fr)
    rep.set("rule", "let in front of EVERY shape of initial value (binary operators of every precedence level incl. the lazy boolean ones, unary, cast, if / match / closure call / block / index / field / path call), let and let mut, read by a capture of another branch; depth profiles n<=3,d<=3 (some branch with >= 2 steps) x EVERY non-empty subset of named branches (let / let mut alternating) x 8 macro kinds; EVERY capture of every (branch, step>=1) snapshots ALL visible names; oracle: the macro result equals the reference's (which is the result without let) and every snapshot equals the reference's 'latest completed step value of the named branch, still wrapped in try macros', also after that branch finished")
    sample_family(rep, progs, fr)


LET_SHAPES = [
    ("i32", "int(0) + int(1)"), ("i32", "int(0) * 2 - int(1)"), ("i32", "-int(0)"), ("i32", "int(0) << 1"), ("i32", "int(0) | 4"),
    ("i32", "int(0) ^ 5"), ("i32", "int(0) & 6"), ("i32", "int(0) as i64 as i32"), ("i32", "if int(0) > 0 { 1 } else { 2 }"),
    ("i32", "match int(0) { 0 => 7, v => v }"), ("i32", "(|| int(0))()"), ("i32", "{ int(0) }"), ("i32", "[int(0), 5][0]"),
    ("i32", "(int(0), 9).0"), ("i32", "i32::max(int(0), 3)"), ("i32", "int(0) % 3 + int(1) / 2"),
    ("bool", "int(0) > 0 || int(1) > 0"), ("bool", "int(0) > 0 && int(1) > 0"), ("bool", "int(0) == int(1)"), ("bool", "int(0) < int(1)"),
    ("bool", "!(int(0) > 0)"), ("bool", "int(0) > 0 || int(1) > 0 && int(0) > 2"), ("bool", "int(0) > 0 && int(1) > 0 || int(0) > 2"),
    ("bool", "int(0) != 0"), ("bool", "int(0) >= int(1)"), ("bool", "(int(0) > 0) | (int(1) > 0)"), ("bool", "true && int(0) > 0 && int(1) > 0"),
    ("bool", "int(0) > 0 || int(1) > 0 || int(0) < -5"),
]


def let_value_shape_programs():
    """`let [mut] name =` in front of every shape of initial value: the name binds the branch's step value (not a part of the
    expression), the result is the one without `let`"""
    from . import e2

    progs = []
    rows = [[0, 0], [1, 0], [0, 1], [3, 2], [-7, 4]]
    for si, (ty, shape) in enumerate(LET_SHAPES):
        for mac in ("join", "join_spawn", "spawn"):
            for mut in ("", "mut "):
                if mut and mac != "join":
                    continue
                f0 = "|v: %s| { ev(\"0.0.f\", &v); v }" % ty
                cap = "{ let nm = nm; move |v: i32| { ev(\"1.1.f\", &(v, nm)); v + 1 } }"
                d = "%s! { let %snm = %s -> %s, int(1) ~-> %s }" % (mac, mut, shape, f0, cap)
                r = "{ let nm = (%s); let nm = (%s)(nm); let r1 = int(1); let c = %s; let r1 = c(r1); (nm, r1) }" % (shape, f0, cap)
                fmt = "\nformat!(\"{:?}\", x)"
                progs.append(e2.Prog("letshape/%s/%d/%s" % (mac, si, "mut" if mut else "let"), "let x = %s;%s" % (r, fmt), "let x = %s;%s" % (d, fmt), rows, "Full" if mac == "join" else "Proj", meta={"macro": mac, "dsl": d, "ref": r}))
    return progs


def let_lazy_bool_programs(macs=("join", "join_spawn", "spawn")):
    """a named (and, as control, an unnamed) branch whose initial value has lazy boolean operators at the top level, EVERY operand
    with a visible evaluation: each operand that control flow reaches is evaluated exactly once (short-circuit like the plain
    expression), and the name holds the value of the whole expression"""
    from . import e2

    A, Bv, C = 'lg("0.0.a", int(0) > 0)', 'lg("0.0.b", int(1) > 0)', 'lg("0.0.c", int(2) > 0)'
    shapes = ["%s || %s" % (A, Bv), "%s && %s" % (A, Bv), "%s || %s || %s" % (A, Bv, C), "%s && %s && %s" % (A, Bv, C),
              "%s && %s || %s" % (A, Bv, C), "%s || %s && %s" % (A, Bv, C), "!%s || %s" % (A, Bv)]
    rows = [[a, b, c] for a in (0, 1) for b in (0, 1) for c in (0, 1)]
    progs = []
    for si, shape in enumerate(shapes):
        for mac in macs:
            for form in ("let nm = ", "let mut nm = ", ""):
                if form == "let mut nm = " and mac != "join":
                    continue
                f0 = "|v: bool| { ev(\"0.0.f\", &v); v }"
                if form:
                    cap = "{ let s = nm; move |v: i32| { ev(\"1.1.f\", &(v, s)); v + 1 } }"
                else:
                    cap = "{ move |v: i32| { ev(\"1.1.f\", &v); v + 1 } }"
                d = "%s! { %s%s -> %s, int(1) ~-> %s }" % (mac, form, shape, f0, cap)
                r = "{ let nm = (%s); let nm = (%s)(nm); let r1 = int(1); let c = %s; let r1 = c(r1); (nm, r1) }" % (shape, f0, cap)
                fmt = "\nformat!(\"{:?}\", x)"
                progs.append(e2.Prog("letbool/%s/%d/%s" % (mac, si, form.replace(" ", "").replace("=", "") or "plain"), "let x = %s;%s" % (r, fmt), "let x = %s;%s" % (d, fmt), rows,
                                     "Full" if mac == "join" else "Proj", meta={"macro": mac, "dsl": d, "ref": r}))
    return progs


def handler_expr_programs():
    """handler operands whose evaluation is itself visible: evaluated exactly once per macro evaluation, whatever fails
    (compared per trace key, i.e. the count is judged, not the position relative to the steps)"""
    from . import fam_profiles as fp

    progs = []
    for ds in fp.profiles(2, 2):
        for mac in ["join", "try_join", "join_spawn", "try_join_spawn", "join_async", "try_join_async", "join_async_spawn", "try_join_async_spawn"]:
            is_try = mac.startswith("try")
            for hk in (("map", "and_then") if is_try else ("then",)):
                p = fp.build(mac, ds, flavour="Res" if is_try else None, handler=hk, hexpr_ev=True)
                sub = fp.fail_slots(ds) if is_try else ()
                # sequential macros: the handler operand is evaluated where the expansion puts it today — first, before step 0 — and the
                # whole trace is compared; elsewhere the count per trace key is judged
                cmp = "TryAsync" if (is_try and "async" in mac) else ("Full" if mac in ("join", "try_join") else "Proj")
                progs.append(fp.to_prog("hexpr/%s/%s/%s" % (mac, fp.pname(ds), hk), p, [[0]] if is_try else fp.offset_rows(), sub=sub, cmp=cmp))
                if "async" in mac:
                    # the handler operand is a user expression like any other: an async macro evaluates it only once its future is polled
                    from . import dsl, e2
                    d, r = dsl.program_dsl(p), dsl.program_ref(p, anyof=False)
                    bo_ = "trt().block_on" if "spawn" in mac else "futures::executor::block_on"
                    rb = "let x = futures::executor::block_on(%s);\nformat!(\"events before the first poll: 0 / {:?}\", x)" % r
                    mb = "let f = %s;\nlet before = log_len();\nlet x = %s(f);\nformat!(\"events before the first poll: {} / {:?}\", before, x)" % (d, bo_)
                    progs.append(e2.Prog("hexpr-lazy/%s/%s/%s" % (mac, fp.pname(ds), hk), rb, mb, [[0]], "Value", meta={"macro": mac, "dsl": d, "ref": r}))
    return progs


@check("C13", "exploration")
def c13(tier, rep):
    from . import e1, fam_profiles as fp

    progs = []
    for ds in fp.profiles(3, 2 if tier == "quick" else 3):
        n = len(ds)
        positions = sorted({0, n // 2, n})
        for mac in KINDS8 + ["spawn", "try_spawn", "async_spawn", "try_async_spawn"]:
            if sum(ds) > 7:
                continue
            is_try = mac.startswith("try")
            alias = mac in ("spawn", "try_spawn", "async_spawn", "try_async_spawn")
            for hk in (("map", "and_then") if is_try else ("then",)):
                for hpos in positions if not alias else [n]:
                    for fl in (("Res", "Opt") if is_try and "async" not in mac else ("Res",)):
                        if fl == "Opt" and hpos != n:
                            continue
                        p = fp.build(mac, ds, flavour=fl if is_try else None, handler=hk, hpos=hpos, rich=(n <= 2))
                        sub = fp.fail_slots(ds) if is_try else ()
                        rows = [[0]] if is_try else fp.offset_rows()
                        progs.append(fp.to_prog("%s/%s/%s/%s@%d" % (mac, fl, fp.pname(ds), hk, hpos), p, rows, sub=sub))
    # Option branches that fail in a MIDDLE step through an operator that is also an Option method (filter / zip / flatten), every later
    # step starting with a `~<|` that would revive them: the handler is not called (and nothing of a later step runs)
    for ds in ((3,), (3, 1), (2, 3), (3, 3)):
        for mac in ("try_join", "try_join_spawn", "try_spawn"):
            for hk in ("map", "and_then"):
                for fo_ in ("filter", "zip", "flatten"):
                    if mac != "try_join" and (hk, fo_) not in (("map", "filter"), ("and_then", "zip")):
                        continue
                    p = fp.build(mac, ds, flavour="Opt", failop=fo_, recover=True, handler=hk)
                    progs.append(fp.to_prog("%s/Opt/%s/%s/%s/recover" % (mac, fp.pname(ds), hk, fo_), p, [[0]], sub=fp.fail_slots(ds)))
    progs += handler_expr_programs()
    fr = e2.run_family("c13", progs, extra_header=fp.HEADER)
    judge_family(rep, fr)
    from . import fam_options as fo

    hp = fo.handler_programs(tier)
    fr2 = e2.run_family("c13options", hp, extra_header=fp.HEADER + fo.PRE)
    judge_family(rep, fr2)
    exe = e1.build()
    d = e1_mode(rep, exe, ["opts", "handlers"], "C13", "handler legality")
    rep.set("legality_inputs", d["inputs"] if d else 0)
    rep.set("profile_depth_bound", 2 if tier == "quick" else 3)
    rep.set("rule", "E2: Option branches failing in a middle step through filter / zip / flatten while every later step starts with a reviving `~<|` (sync try kinds, every failure subset): handler not called; E2 under options: every handler kind, written first and last, behind custom_joiner / lazy_branches(true|false) / transpose_results(true) in sync, spawn, async and task-spawning kinds (async try with transpose_results(true): joined with a plain join and transposed by the macro — map still gets the unwrapped values and is skipped on failure), every failure subset; E2: depth profiles n<=3,d<=2 x 12 macros x {map, and_then | then} x handler written first / in the middle / last x EVERY failure subset (try) : handler event count, argument order, result wrapping vs the reference (handler called exactly once iff every branch succeeded; then: always); async then/and_then handlers return futures (awaited; the gated variants run under all wake-up orders in C09's set); E1: 8 configs x 3 handler kinds x 1-3 branches x every position x optional second handler at every position: rejection iff wrong kind or second handler")
    sample_family(rep, progs, fr)


@check("C16", "exploration")
def c16(tier, rep):
    from . import e1, fam_options as fo, fam_profiles as fp

    progs = fo.programs(tier)
    fr = e2.run_family("c16joiners", progs, extra_header=fp.HEADER + fo.PRE)
    judge_family(rep, fr)
    tp = fo.transpose_programs() + fo.transpose_on_non_try_programs() + fo.lazy_false_callable_programs()
    fr2 = e2.run_family("c16transpose", tp, extra_header=fp.HEADER + fo.TRANSPOSE_PRE)
    judge_family(rep, fr2)
    f3 = fo.fut03_programs(tier)
    fr3 = e2.run_family("c16fut03", f3, extra_header=fo.FUT03_HEADER, deps_override=fo.FUT03_DEPS)
    judge_family(rep, fr3)
    exe = e1.build()
    d = e1_mode(rep, exe, ["opts", "options"], "C16", "option parsing")
    rep.set("option_selections", d["selections"] if d else 0)
    rep.set("rule", "E1: all 65 ordered duplicate-free selections of the four options and every selection with one duplicate inserted at every position x 2 value sets x 6 configs: accepted iff duplicate-free, parsed fields equal the written ones, futures_crate_path rejected for sync macros and used for every futures item; E2: depth profiles n<=3,d<=3 x {variadic macro joiner, fixed-arity fn joiner, lazy joiner that invokes its closures in REVERSE order, async joiners} in sync/spawn/async kinds with every failure subset: exactly one joiner event per step with > 1 active branches, arity = active count, result positions, lazy order; transpose_results(false) with a try-collecting joiner and injected joiner failures per step; explicit lazy_branches(false) on the four thread-spawning macros over callable branches (the branch thread calls them); transpose_results(true / false) written on the four non-try kinds (int- and Option-valued branches, 1-3 steps) changes nothing; futures_crate_path(::fut03) in a crate that has no dependency named futures")
    sample_family(rep, progs, fr)


@check("C17", "exploration")
def c17(tier, rep):
    from . import fam_names as fn

    dp = fn.dense_programs(tier)
    fr = e2.run_family("c17dense", dp, extra_header=fn.NEST_HEADER)
    judge_family(rep, fr)
    np_ = fn.nesting_programs(tier)
    fr2 = e2.run_family("c17nest", np_, extra_header=fn.NEST_HEADER)
    judge_family(rep, fr2)
    sp = fn.sibling_programs(tier) + fn.handler_operand_nesting() + fn.hostile_scope_programs()
    fr3 = e2.run_family("c17siblings", sp, extra_header=fn.NEST_HEADER)
    judge_family(rep, fr3)
    n3 = fn.nesting3_programs(tier)
    fr4 = e2.run_family("c17nest3", n3, extra_header=fn.NEST_HEADER)
    judge_family(rep, fr4)
    rep.set("depth3_nestings", len(n3))
    # thread-spawning macros nested in each other under every schedule: names compose, a lone step (and the macro nested in it) stays
    # on the caller
    run_threads(rep, tier, "c17", "nested thread-spawning macros")
    rep.set("distinct_nontrivial", len(dp) + len(np_) + len(sp) + len(n3))
    rep.set("rule", "(d) hostile scope: every macro invoked where the caller's scope has its own items named std / core / alloc / tokio / futures; (c) sibling independence: the same deep capture-rich try branch alone and next to 1, 2, 11 shallow / equally deep / deeper siblings at every side, every subset of its steps failing — value and trace equal the reference; (a) dense programs: B branches x A actions per step x 2 steps with a block capture carrying a distinct constant on EVERY action for (B, A) over {2,11,12}^2 (thorough: + 24), 13-step branches (__sr10..__sr12), 13 and 24 branches in the thread-spawning kinds (__j10 vs __j1), fold/try_fold captures with operand index 0 and 1 in 12 branches — any clash of generated names makes a binding shadow another and changes a constant / the trace; (b) nesting: EVERY ordered pair of the 12 macros with the inner macro as operand value, inside a block capture and inside a handler (async inner in sync context through a nesting-free block_on, task-spawning inner inside a tokio runtime context); (b3) depth 3: every ordered TRIPLE of the 12 macros, innermost inside the initial operand / a block capture of the middle macro, middle inside an operand / capture / handler of the outer (quick: position pair (capture, operand) for all 1728 triples + all six position pairs over 4 representative middle/inner macros; thorough: all triples x all six pairs; triples in which a tokio task would be spawned from a plain std thread are not programs); oracle: value + trace (per-branch projections) equal the reference applied recursively; every program is distinct and non-trivial by construction (distinct constants, logging callbacks)")
    sample_family(rep, np_, fr2)


@check("C19", "exploration")
def c19(tier, rep):
    from . import fam_costs as fc, fam_profiles as fp, fam_names as fn

    ap = fc.alloc_programs(tier) + fc.exact_alloc_programs()
    from . import fam_options as fo

    fr = e2.run_family("c19alloc", ap, extra_header=fp.HEADER + fc.ALLOC_HEADER + fo.PRE)
    judge_family(rep, fr)
    alloc_free = sum(1 for p in ap if "allocation-free=true" in ((fr.results.get(p.id, {}).get("sample") or {}).get("value") or ""))
    rep.set("allocation_programs", len(ap))
    rep.set("allocation_programs_whose_sampled_row_is_allocation_free", alloc_free)
    tp = fc.tok_programs(tier) + fc.tok_operator_programs()
    fr2 = e2.run_family("c19tok", tp, extra_header=fp.HEADER)
    judge_family(rep, fr2)
    kp = fc.chain_alloc_programs(tier)
    fr4 = e2.run_family("c19chains", kp, extra_header=fc.ALLOC_HEADER)
    judge_family(rep, fr4)
    rep.set("exact_allocation_chain_programs", len(kp))
    rp = fc.rc_programs(tier) + fc.borrow_programs()
    fr3 = e2.run_family("c19bounds", rp, extra_header=fn.NEST_HEADER + fc.RC_PRE)
    judge_family(rep, fr3)
    rep.set("rule", "exact allocation counts: every typed chain of length <= 2 (captured operands, `~` before none / the last / every operator, open iterator adaptors at step boundaries) allocates exactly as often as the documented method chain; allocation: int-only depth profiles n<=4,d<=3 (plain, capture-rich, wrapper steps; every failure subset for small try programs) in join!/try_join! under a counting global allocator with logging switched off: the macro evaluation is allocation-free exactly when the reference is; bounds: (i') every operator that types over a move-only value (11 on Option<Tok>, 8 on Result<Tok, i32>, 11 on Vec<Tok> iterators, two wrappers) as the deferred first operator of a later step / the first operator of step 0 / an instant operator in mid-step in join!, try_join!, join_spawn!, try_join_spawn!: compiles (no Copy / Clone demanded) and agrees with the method chain incl. created / dropped token counts; (i) depth profiles over a move-only, non-Clone, drop-logging token in all 12 macros (values, created/dropped counts and dropped-id multiset equal the reference); (ii) Rc values in the four non-spawning macros incl. 10- and 12-action single steps; (iii) & / &mut borrows of caller locals through step closures, wrapper closures, captures, branch values and handlers: the macro must compile wherever the reference does and agree with it (the universal type-level claim is decided for these shapes only)")
    sample_family(rep, ap, fr)


@check("C10", "exploration")
def c10(tier, rep):
    from . import e1, fam_costs as fc, fam_profiles as fp, fam_chains

    exe = e1.build()
    L = 2 if tier == "quick" else 3
    d = e1_mode(rep, exe, ["c10", L, ALL8], "C10", "exactly once (expansion)")
    rep.set("marker_inputs", d["inputs"] if d else 0)
    tp = fc.tok_programs(tier)
    fr = e2.run_family("c19tok", tp, extra_header=fp.HEADER)
    judge_family(rep, fr)
    progs, _ = fam_chains.sync_chain_programs(2)
    fr2 = e2.run_family("c10chains", progs)
    judge_family(rep, fr2)
    # operands inside wrappers whose closure runs never / once / once per item: parenthesised blocks (ordinary expressions, evaluated
    # as often as the closure runs) next to real block captures (evaluated once)
    from . import fam_wrappers

    wp, _ = fam_wrappers.programs(tier)
    wp = [q for q in wp if "paren/" in q.id or "cap/" in q.id]
    fr5 = e2.run_family("c10wrappers", wp)
    judge_family(rep, fr5)
    from . import fam_captures

    cp, _ = fam_captures.chain_programs(tier)
    fr3 = e2.run_family("c11chains", cp)
    judge_family(rep, fr3)
    hp = handler_expr_programs() + let_lazy_bool_programs()
    fr4 = e2.run_family("c10hexpr", hp, extra_header=fp.HEADER)
    judge_family(rep, fr4)
    # callbacks inside wrappers of the async macros are invoked exactly as often as the wrapped value's own method invokes them
    # (`??` on a wrapped None / Err: never; on a wrapped stream: once per item) — the async wrapper family (shared with C02)
    from . import fam_wrappers

    awp = fam_wrappers.async_wrapper_programs(tier)
    fr5 = e2.run_family("c10asyncwrap", awp, extra_header=fam_wrappers.ASYNC_PRE)
    judge_family(rep, fr5)
    rep.set("rule", "E1: EVERY chain over the 70 operator instances up to length %d (plain, block and closure operands; + a second branch with let, deferred steps, a capture and a handler) in 8 configs, each user operand a unique marker: every marker occurs exactly once in the expansion's token stream; E2: depth profiles over a move-only, non-Clone, drop-logging token in all 12 macros with every failure subset (event multiset per branch, created = dropped, dropped-id multiset equal the reference: nothing cloned, leaked or dropped twice) and all typed chains of length <= 2 (callbacks invoked exactly as often, with the same arguments, as the documented method invokes them), plus the capture-dense chain family of C11 (every block operand evaluated and every captured callable used exactly once); named / unnamed branches whose initial value has top-level `||` / `&&` with a visible evaluation in every operand (each reached operand exactly once, on all 8 input rows)" % L)
    sample_family(rep, tp, fr)


@check("C07", "translation_validation")
def c07(tier, rep):
    from . import e1, e3a, e3t, fam_agree as fa, fam_async, fam_profiles as fp, fam_threads

    progs = fa.pair_programs(tier) + fa.send_not_sync_programs() + fa.send_future_programs() + fa.no_runtime_programs()
    fr = e2.run_family("c07pairs", progs, extra_header=fp.HEADER)
    judge_family(rep, fr)
    cp = fa.chain_pair_programs()
    fr2 = e2.run_family("c07chains", cp)
    judge_family(rep, fr2)
    kp = fa.capture_pair_programs(tier)
    fr3 = e2.run_family("c07captures", kp)
    judge_family(rep, fr3)
    # the spawn variants and aliases in a scope that has its own items called std / tokio / futures / core / alloc: they expand and
    # evaluate exactly where the plain macros do (shared with C17)
    from . import fam_names, dsl as _dsl

    hp_ = [q for q in fam_names.hostile_scope_programs() if q.meta["macro"] in _dsl.SPAWN]
    fr4 = e2.run_family("c07hostile", hp_, extra_header=fam_names.NEST_HEADER)
    judge_family(rep, fr4)
    rep.set("programs", len(progs) + len(cp) + len(kp))
    # (b) real expansion text: alias == long name (== join_impl as a library)
    exe = e1.build()
    npairs, nbind, problems, items = fa.expansion_text_check(exe)
    rep.set("expansion_pairs_compared", npairs)
    rep.set("e1_bindings_to_real_macro_compared", nbind)
    for pr in problems:
        if pr["what"].startswith("MACHINERY") or pr["what"].startswith("BINDING"):
            raise MachineryError("%s: %s" % (pr["what"], pr.get("body")))
        rep.violate("%s!{ %s } | expansion text" % (pr["alias"], pr["body"]), "%s [%s!{ %s }]" % (pr["what"], pr["alias"], pr["body"]), pr)
    # (c) E3: the outcome set explored for an alias equals that of its long name; thread identity incl. an unnamed caller
    res = run_threads(rep, tier, "c08", "spawn variant vs plain macro (all schedules, 3 caller names)")
    ares = run_async(rep, tier, "c09", "task-spawning variant vs plain macro (all wake-up orders)")
    cmp_n = 0
    for results in (res.results, ares.results):
        for pid, d in results.items():
            mac = pid.split("/")[0]
            long = dsl_long(mac)
            if long and pid.replace(mac + "/", long + "/", 1) in results:
                other = results[pid.replace(mac + "/", long + "/", 1)]
                cmp_n += 1
                if d["ohash"] != other["ohash"] or d["executions"] != other["executions"]:
                    rep.violate("%s | outcome set" % pid, "the set of outcomes explored for %s differs from the one of its long name (%d vs %d executions)" % (pid, d["executions"], other["executions"]), {"alias": d.get("sample"), "long": other.get("sample")})
    rep.set("alias_outcome_sets_compared", cmp_n)
    # plain vs task-spawning variant under EVERY wake-up order and failure subset: the SETS of (fault row, returned value) must agree
    # (e.g. which of two branches failing in the same step can be returned)
    fres = run_async(rep, tier, "c05", "try macro: plain vs task-spawning variant", keep=lambda w: False)
    vs_n = 0
    for pid, d in fres.results.items():
        mac = pid.split("/")[0]
        if mac in ("try_join_async_spawn", "try_async_spawn"):
            plain = pid.replace(mac + "/", "try_join_async/", 1)
            if plain in fres.results:
                vs_n += 1
                o = fres.results[plain]
                if o["vhash"] != d["vhash"]:
                    rep.violate("%s | value set" % pid, "the set of values %s can return over all wake-up orders and failure subsets differs from the one of try_join_async! (%d vs %d distinct (row, value) pairs) — e.g. fail-fast behaviour or which failing branch wins" % (pid, d["nvalues"], o["nvalues"]), {"spawn": d.get("sample"), "plain": o.get("sample")})
    rep.set("plain_vs_spawn_value_sets_compared", vs_n)
    rep.set("disagreements_checked", fr.rows + fr2.rows + npairs + cmp_n)
    rep.set("rule", "(a'') single-branch programs of the task-spawning macros driven by a plain executor outside any tokio runtime agree with the plain macro (nothing is spawned, so no runtime is asked for); (a') Send parity: the future of each task-spawning macro over Send + 'static branches passes a `T: Send` bound and is driven on another OS thread, like the plain macro's; (a) the SAME generated program (depth profiles plain / capture-rich / handler+let with every failure subset; every typed chain of length <= 2 as first branch) instantiated under both names of each of the 12 pairs {plain, spawn variant, alias}: results and per-branch traces compared directly, real macro against real macro; (b) real expansion text (rustc -Zunpretty=expanded) of alias!{P} == long!{P} for P over the 40-input feature corpus x 4 alias pairs, and join_impl called as a library (E1) == the real proc-macro; (c) under the thread scheduler / deterministic executor the outcome set explored for an alias equals the one of its long name and every outcome equals the plain macro's reference")
    sample_family(rep, progs, fr)


def dsl_long(mac):
    from . import dsl

    return dsl.LONG_NAME.get(mac)
