#!/usr/bin/env python3
"""Runs seeded mutants against quick checks in scratch worktrees (never in /repo) and records who detects what.
usage: tools/matrix.py <lane> <nlanes> [--all]   — lane k handles mutants i % nlanes == k.
Default: each mutant against its own property's check plus related ones; --all: against all 20 checks; --own: own property's check only."""
import json
import os
import subprocess
import sys

VERIF = "/verif"
lane, nl = int(sys.argv[1]), int(sys.argv[2])
ALL = "--all" in sys.argv
OWN = "--own" in sys.argv
RELATED = {
    "C01": ["C01", "C10", "C11", "C14"], "C02": ["C02", "C03", "C06"], "C03": ["C03", "C02", "C05", "C06"], "C04": ["C04", "C13", "C07"],
    "C05": ["C05", "C06"], "C06": ["C06", "C05", "C02", "C03"], "C07": ["C07", "C08"], "C08": ["C08", "C03", "C07"], "C09": ["C09", "C03"],
    "C10": ["C10", "C11", "C17"], "C11": ["C11", "C10", "C17"], "C12": ["C12"], "C13": ["C13", "C04"], "C14": ["C14", "C01"], "C15": ["C15", "C14"],
    "C16": ["C16", "C15"], "C17": ["C17", "C11"], "C18": ["C18", "C03", "C08"], "C19": ["C19", "C10"], "C20": ["C20"],
}
ALLC = ["C%02d" % i for i in range(1, 21)]
wt = "/tmp/lane%d" % lane
if not os.path.isdir(wt):
    subprocess.run(["git", "-C", "/repo", "worktree", "add", "-q", "--detach", wt, "HEAD"], check=True)
env = dict(os.environ, VERIF_REPO=wt, VERIF_TARGET="/tmp/lane%d_t" % lane, VERIF_WORK="/tmp/lane%d_w" % lane)
muts = sorted(os.listdir(os.path.join(VERIF, "seeded")))
muts = [m for m in muts if os.path.isdir(os.path.join(VERIF, "seeded", m))]
def _sel(m):
    try:
        meta = json.load(open(os.path.join(VERIF, "seeded", m, "meta.json")))
    except Exception:
        return False
    if os.environ.get("ROUND") and str(meta.get("round")) != os.environ["ROUND"]:
        return False
    if os.environ.get("ONLY") and m not in os.environ["ONLY"].split(","):
        return False
    return True


muts = [m for m in muts if _sel(m)]
for i, m in enumerate(muts):
    if i % nl != lane:
        continue
    meta_p = os.path.join(VERIF, "seeded", m, "meta.json")
    meta = json.load(open(meta_p))
    if "obsolete" in meta.get("status", ""):
        continue
    if os.environ.get("ROUND") and str(meta.get("round")) != os.environ["ROUND"]:
        continue
    if os.environ.get("ONLY") and m not in os.environ["ONLY"].split(","):
        continue
    subprocess.run(["git", "-C", wt, "checkout", "-q", "--detach", subprocess.check_output(["git", "-C", "/repo", "rev-parse", "HEAD"], text=True).strip()], check=True)
    subprocess.run(["git", "-C", wt, "checkout", "--", "."], check=True)
    r = subprocess.run(["git", "-C", wt, "apply", os.path.join(VERIF, "seeded", m, "patch.diff")])
    if r.returncode != 0:
        print(m, "PATCH DOES NOT APPLY", flush=True)
        continue
    prop = meta["breaks_property"]
    checks = ALLC if ALL else ([prop] if OWN else RELATED[prop])
    res = dict(meta.get("check_results", {}))
    for c in checks:
        p = subprocess.run([os.path.join(VERIF, "check"), c, "--tier", "quick"], cwd=VERIF, env=env, stdout=subprocess.PIPE, stderr=subprocess.STDOUT, text=True)
        res[c] = {0: "silent", 1: "VIOLATION", 2: "machinery-error"}.get(p.returncode, "exit %d" % p.returncode)
        print(m, c, res[c], flush=True)
    meta["check_results"] = res
    meta["detected_by"] = sorted(c for c, v in res.items() if v == "VIOLATION")
    json.dump(meta, open(meta_p, "w"), indent=1)
    subprocess.run(["git", "-C", wt, "checkout", "--", "."], check=True)
