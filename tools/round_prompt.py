#!/usr/bin/env python3
"""Prompt for a later-round mutant agent: the base prompt (property text + scratch worktree only) plus the one-line descriptions of
the changes other agents already produced for that property (taken from tools/gen_matrix_md.py), so that it looks elsewhere.
usage: tools/round_prompt.py <property> <worktree>"""
import re
import subprocess
import sys

pid, wt = sys.argv[1], sys.argv[2]
base = subprocess.check_output([sys.executable, "/verif/tools/mutant_prompt.py", pid, wt], text=True)
src = open("/verif/tools/gen_matrix_md.py").read()
ideas = re.findall(r"'(%s-[a-z])': '((?:[^'\\]|\\.)*)'" % pid, src)
print(base)
print("IMPORTANT: do NOT use 'git stash' (shared between worktrees); use 'git diff > file' + 'git checkout -- .' + 'git apply file'.\n")
print("The following ideas have ALREADY been produced by others for this property (three earlier rounds) — do NOT repeat them or close variants; "
      "find a DIFFERENT mechanism in a different corner of the code. Hunting grounds that are still thin: behaviour that only differs on the FAILURE or PANIC path "
      "(a branch failing or panicking at one particular step while siblings are at particular stages), macros used in a LOOP or called repeatedly with different run-time values, "
      "interaction of THREE features at once (e.g. let names + wrappers + handler, custom_joiner + steps + try, nested macro inside a capture inside a wrapper), "
      "operands that are unusual Rust expressions (method chains with turbofish, `?`, closures returning closures, `async` blocks, references, struct literals in parentheses, macro calls like vec![..] or format!(..)), "
      "deep profiles (5+ steps, 6-12 branches, the deepest branch in the middle), the alias macros, Option vs Result in try macros, `>.` vs `..`, typed `=>[] T` / `<-> A, B, C, D`, "
      "the `then`/`map`/`and_then` handlers combined with steps and options, and anything that depends on *which thread / task / poll* evaluates an expression:")
for k, d in ideas:
    print("  - " + d.replace("\\'", "'"))
