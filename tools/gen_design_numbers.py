#!/usr/bin/env python3
"""Refreshes the measured-numbers table between the EVID markers of DESIGN.md from evidence/*.json."""
import glob
import json
import re

rows = ["| check | tier | wall s | what the committed evidence reports |", "|---|---|---|---|"]
KEYS = ["programs", "input_rows", "thread_programs", "schedules", "async_programs", "decision_sequences", "states", "transitions", "inputs", "evaluations",
        "histories", "concurrent_pairs", "expansion_pairs_compared", "e1_bindings_to_real_macro_compared", "real_tokio_conformance_runs", "unpruned_crosscheck_executions", "traces_validated_against_impl"]
for f in sorted(glob.glob("/verif/evidence/C*.json")):
    d = json.load(open(f))
    c = d["coverage"]
    parts = ["%s %s" % (k.replace("_", " "), format(c[k], ",")) for k in KEYS if k in c and isinstance(c[k], int) and c[k]]
    rows.append("| %s | %s | %.0f | %s; exhaustive=%s |" % (d["property_id"], d["tier"], d["wall_s"], "; ".join(parts), c.get("exhaustive")))
p = "/verif/DESIGN.md"
s = open(p).read()
s = re.sub(r"<!-- EVID-BEGIN -->.*?<!-- EVID-END -->", "<!-- EVID-BEGIN -->\n" + "\n".join(rows) + "\n<!-- EVID-END -->", s, flags=re.S)
open(p, "w").write(s)
print("ok")
