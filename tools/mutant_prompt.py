#!/usr/bin/env python3
"""Print the prompt handed to a fresh sub-agent that is asked for a property-breaking change.
Only the property's text and the scratch worktree path are given (nothing from /verif)."""
import json, sys
pid, wt = sys.argv[1], sys.argv[2]
out = wt + ".out"
p = next(json.loads(l) for l in open('/verif/properties.jsonl') if json.loads(l)['id'] == pid)
print(f"""You are helping test a verification effort for the Rust proc-macro crate olegnn/join (a combinator DSL: join!, try_join!, join_spawn!, join_async!, ... macros). You work ONLY inside the scratch git worktree {wt} (a checkout of the repository; its `target/` directory is pre-warmed) and write your results to {out}/ . Never touch /repo or /verif, never read anything under /verif. There is no network: always pass `--offline` to cargo (e.g. `cd {wt} && cargo test --workspace --offline --lib --tests`). The README.md and join/src/lib.rs docs describe the DSL; the generator is join_impl/src/join/join_output.rs, the parser is under join_impl/src/.

Here is a semantic property the crate is supposed to satisfy:

  Title: {p['title']}
  Statement: {p['statement']}
  Quantified over: {p['quantifier']['text']}

YOUR TASK: produce a *realistic* change (a plausible bug: an off-by-one, a wrong index, a condition that is subtly too narrow/wide, a reordering, a shortcut/optimisation that is wrong in a corner, two cooperating sites that each look fine alone) to the NON-TEST source code of the crate (files under join_impl/src or join/src/lib.rs; do not edit tests) such that:
  1. the workspace still compiles;
  2. the existing test suite still passes completely: `cargo test --workspace --offline --lib --tests` (80 tests: 15+17+15+14+19) — run it and confirm;
  3. the property above is violated — but only under something *specific*: a particular depth profile / number of branches, a particular interleaving or wake-up order, a failure or panic at a particular position, a multi-step sequence, an unusual operand or operator combination. Not something every ordinary use would expose at once (e.g. do NOT simply break `|>` for everyone).
  4. you provide a demonstration: a small integration test file (put it at {out}/demo.rs, written so that it can be dropped into join/tests/ and run with `cargo test --offline --test demo`) that FAILS with your change and PASSES on the unchanged code. Verify both directions yourself (copy it to join/tests/demo.rs temporarily to run it, then remove it from the worktree again). The dev-dependencies available to tests are futures 0.3, tokio 1 (full), futures-timer; nothing else can be fetched.

Prefer a change that is different from the most obvious one; subtle is better than blunt. If you can, produce TWO independent changes with different mechanisms (second one as {out}/patch2.diff + {out}/demo2.rs), but one good one is enough.

Deliverables in {out}/ :
  - patch.diff : output of `git -C {wt} diff` containing ONLY your source change (not the demo test), must apply with `git apply` to a clean checkout of the same commit;
  - demo.rs : the demonstration test;
  - notes.md : which property it breaks, what exactly is needed for it to manifest, what you ran and what you observed (test-suite result with the change, demo result with and without the change).
When finished leave the worktree clean of the demo file (the source change may stay applied). Finish with a short summary of the change(s).""")
