#!/bin/bash
# usage: tools/try_mutant.sh <patch.diff> <check id>...   — applies the patch to /repo, runs the quick checks, reverts.
# Prints one line per check: "<id> exit=<code>". Evidence/replays go to work/scratch_* (VERIF_SCRATCH=1).
set -u
patch="$1"; shift
cd /verif
if ! git -C /repo diff --quiet; then echo "/repo is dirty, refusing"; exit 3; fi
git -C /repo apply "$patch" || { echo "patch does not apply"; exit 3; }
trap 'git -C /repo checkout -- . ' EXIT
for c in "$@"; do
  out=$(VERIF_SCRATCH=1 ./check "$c" --tier "${TIER:-quick}" 2>&1); code=$?
  echo "$c exit=$code $(echo "$out" | grep -c '^VIOLATION') violation lines; $(echo "$out" | tail -1 | cut -c1-300)"
  if [ "${SHOW:-0}" = "1" ]; then echo "$out" | grep -A1 '^VIOLATION' | head -8 | cut -c1-600; fi
  if [ $code -eq 2 ]; then echo "$out" | tail -15; fi
done
