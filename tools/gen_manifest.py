#!/usr/bin/env python3
"""Regenerates /verif/MANIFEST.json from the table below (edit here, not in the JSON)."""
import json
import os

VERIF = os.path.dirname(os.path.dirname(os.path.abspath(__file__)))

E2_NOTE = ("Trusted: rustc/std, the reference renderer R and typed operator table in vlib (boring, transcribed from the README), "
           "vrt's driver. Bounded: chains/profiles/operands beyond the enumerated bound are not covered.")

E3T_NOTE = ("Trusted: rustc/std, the baton scheduler rt/vsched (self-tested on every run: 90 orders of the 3x2 multinomial program, identical replay) "
            "and the vstd shim that makes the unmodified expansion's ::std::thread resolve to it (an execution whose running thread blocks outside the scheduler is flagged uncontrolled and makes the run non-exhaustive); sequential consistency at visible operations "
            "(the expansion is safe Rust whose threads communicate only through spawn arguments and join results). Bounded by the enumerated programs.")

E3A_NOTE = ("Trusted: rustc/std, futures 0.3.26 (explored, not modelled), the deterministic executor rt/vexec and the tokio shim rt/vtokio "
            "(spawn/JoinHandle/JoinError semantics the expansion relies on; the runtime flavour is an explored answer; tokio's own join!/try_join! are the real ones); explicit-state pruning on a canonical state whose adequacy is cross-checked "
            "against the unpruned exploration of the small programs on every run. Real tokio scheduling is covered only by the free-running E2 runs.")

CLAIMED = {
    "C01": dict(
        category="exploration",
        technique="bounded exhaustive enumeration of the typed operator transition system; every program compiled through the real macros and compared on every input row with the documented method chain (differential, in-binary reference)",
        text="Every path of the typed operator transition system up to the stated length is generated, expanded by the real proc-macros from /repo's working tree, compiled, and run on every row of its input table; value and full callback trace must equal the documented method chain compiled next to it; a well-typed chain whose expansion does not compile is a violation. Exhaustive within the bound, no sampling.",
        design_ref="DESIGN.md §4 C01, §2.1-2.4",
        note=E2_NOTE,
        engine="E2",
    ),
    "C02": dict(
        category="exploration",
        technique="bounded exhaustive enumeration of wrapper programs (operator x kind x inner chain x closing mode x nesting x ~ placement) through the real macros vs the reference `.x(|v| v inner) rest` (differential, value + full trace)",
        text="Each of the ten wrapper-capable operators on every kind it types on, with every inner chain up to the bound, every closing mode and `~` placement, nesting up to the bound, is expanded by the real macros and compared, value and full callback/capture trace, with the nested-closure reference on every input row.",
        design_ref="DESIGN.md §4 C02",
        note=E2_NOTE,
        engine="E2",
    ),
    "C03": dict(
        category="model_checking",
        technique="stateless model checking of the generated code: exhaustive enumeration of all orders of visible operations under a controlled (baton) thread scheduler, per depth profile, and of all wake-up / task-schedule decision sequences under a deterministic executor; single-branch programs additionally compiled through the real macros and compared with the reference (differential)",
        text="For every depth profile and thread-spawning macro the real expansion is executed under every order of visible operations (callbacks, operands, captures); in every execution no step-(k+1) event precedes a step-k event and every branch continues from its own value. Sequential macros are decided by exact trace equality in the C04-C06 families.",
        design_ref="DESIGN.md §4 C03, §2.5",
        note=E3T_NOTE + " " + E3A_NOTE + " " + E2_NOTE,
        engine="E2+E3-T+E3-A",
    ),
    "C04": dict(
        category="exploration",
        technique="bounded exhaustive enumeration of depth profiles x macro kinds x handler/let modes; real macros vs reference tuple (differential)",
        text="All depth profiles up to the bound in all eight macro kinds with/without handler and let names; every branch encodes (branch, steps) in its value, so any misrouted position changes the result; compared with the reference on every row.",
        design_ref="DESIGN.md §4 C04",
        note=E2_NOTE,
        engine="E2",
    ),
    "C05": dict(
        category="fault_enumeration",
        technique="exhaustive fault enumeration: every subset of failing (branch, step) positions over every depth profile, real macros vs reference; thread-spawning kinds additionally under every schedule (baton scheduler)",
        text="Every subset of (branch, step) positions is made to fail in every profile program of the six try macros (Result and Option); the macro's value must be the reference's (lowest-numbered failing branch of the earliest failing step, payload unchanged; async: any branch failing in that step). For try_join_spawn!/try_spawn! small profiles are additionally run under every order of visible operations.",
        design_ref="DESIGN.md §4 C05",
        note=E2_NOTE + " " + E3T_NOTE,
        engine="E2+E3-T+E3-A",
    ),
    "C06": dict(
        category="fault_enumeration",
        technique="exhaustive fault enumeration with a trace oracle: every failure subset x every profile, event trace of the real macros vs the reference; thread kinds under every schedule",
        text="Same programs and rows as C05; every step >= 1 carries a block capture, an error-side callback and a non-closure operand, so anything evaluated after a failed step (or a handler call) is visible in the trace, as is a failing step that was not run to its end in sync/spawn kinds.",
        design_ref="DESIGN.md §4 C06",
        note=E2_NOTE + " " + E3T_NOTE,
        engine="E2+E3-T+E3-A",
    ),
    "C07": dict(
        category="translation_validation",
        technique="differential execution of the same enumerated programs under both macro names (real macro vs real macro), token-level comparison of the real expansions (rustc -Zunpretty=expanded) of alias and long name, and equality of the outcome sets explored by the schedule/wake-up explorers",
        text="Every enumerated program (depth profiles with every failure subset, typed chains) is instantiated under both names of each plain/spawn/alias pair and compared directly; the real expansions of the four aliases are compared token-for-token with those of the long names over a feature corpus (and with join_impl called as a library, which binds the E1 engine to the real proc-macros); under the controlled schedulers the outcome set of an alias equals the one of its long name.",
        design_ref="DESIGN.md §4 C07",
        note=E2_NOTE + " " + E3T_NOTE + " -Zunpretty=expanded (RUSTC_BOOTSTRAP=1 on the pinned stable toolchain) is trusted as printer.",
        engine="E2+E1+E3-T+E3-A",
    ),
    "C08": dict(
        category="model_checking",
        technique="stateless model checking of the generated code under a controlled thread scheduler: all orders of visible operations, invariants on thread identity/liveness in every execution",
        text="The unmodified expansion of the four thread-spawning macros runs on real OS threads under a baton scheduler that enumerates every order of visible operations, for every depth profile, three caller names and nested macros; every execution must be deadlock-free, use the documented thread names (real thread::current().name()), one distinct thread per active branch, the caller's thread for single-branch steps, and the caller may act only when all threads of the step have finished.",
        design_ref="DESIGN.md §4 C08, §2.5",
        note=E3T_NOTE,
        engine="E3-T",
    ),
    "C09": dict(
        category="model_checking",
        technique="explicit-state model checking of the generated futures on a deterministic executor: all decision sequences (polls, releases of pending points before/after arrival, spurious polls); invariants in every quiescent state (progress behind the pending points, waker registered) and in every state where all tasks are idle while the macro's own future is woken but unpolled (task branches progress without the parent); unwatched task completions",
        text="The unmodified expansion of the six async macros runs on a deterministic executor that owns every pending point (gate futures) and every task (tokio::spawn shim); all decision sequences are enumerated. Construction must evaluate nothing; in every quiescent state each branch of the current step has either progressed or registered a waker at its pending point; every maximal execution completes with the reference's result; an operand awaited in place while task branches are built must not stop the branches already started; a task must not complete while the joining future holds no waker for it.",
        design_ref="DESIGN.md §4 C09, §2.6, A.7",
        note=E3A_NOTE,
        engine="E3-A",
    ),
    "C10": dict(
        category="exploration",
        technique="exhaustive marker counting over all operator-instance chains through join_impl (each user operand exactly once in the expansion) + differential runs over a move-only drop-logging token type and capture-dense programs",
        text="Every chain over the 70 operator instances up to the bound (plain/block/closure operands, second branch with let/steps/capture/handler) in 8 configs: every operand marker occurs exactly once in the output; depth profiles over a move-only, non-Clone, drop-logging token in all 12 macros with every failure subset: events, created/dropped counts and dropped-id multiset equal the reference; typed chains and capture-dense chains: every callback/capture exactly as often as the reference.",
        design_ref="DESIGN.md §4 C10",
        note=E2_NOTE,
        engine="E1+E2",
    ),
    "C11": dict(
        category="exploration",
        technique="bounded exhaustive enumeration of programs whose operands are block captures (typed chains, capture-dense multi-branch layouts, depth profiles in 8 macro kinds, wrappers) vs the hoisting reference (differential, trace order)",
        text="Every typed chain up to the bound with ALL its expression operands and its initial value written as block captures, placed next to capture-dense branches (Process and Err operators, mirrored positions, distinct constants) with every `~` placement, plus capture-rich depth profiles in all 8 macro kinds and captures inside wrappers; the trace must show each capture once, after the previous step, before its step's expressions, in branch-then-position order, and the captured value must be the one used.",
        design_ref="DESIGN.md §4 C11",
        note=E2_NOTE,
        engine="E2",
    ),
    "C12": dict(
        category="exploration",
        technique="bounded exhaustive enumeration of depth profiles x named-branch subsets x reader positions x macro kinds vs the reference (differential, snapshot values)",
        text="Every non-empty subset of branches is named in every depth profile and macro kind, and every capture of every later step snapshots all names; the macro result must equal the reference (i.e. be unchanged by `let`) and every snapshot must be the named branch's latest completed step value.",
        design_ref="DESIGN.md §4 C12",
        note=E2_NOTE,
        engine="E2",
    ),
    "C13": dict(
        category="exploration",
        technique="exhaustive fault enumeration over handler programs (kind x position x failure subsets) through the real macros vs the reference + exhaustive legality table through join_impl's entry points",
        text="Handlers of every kind at every position over every depth profile and failure subset: called exactly once iff the reference says so, with the values in branch order and the documented wrapping, awaited in async macros; every (config, handler kind, position, optional second handler) combination is expanded in-process: rejection iff wrong kind or second handler.",
        design_ref="DESIGN.md §4 C13",
        note=E2_NOTE,
        engine="E2+E1",
    ),
    "C14": dict(
        category="exploration",
        technique="bounded exhaustive enumeration of rendered inputs (operator-instance chains, adversarial operands x positions x followers, branch/handler/let layouts) against the structure they were rendered from, in-process through join_impl's parser",
        text="Every chain over all 70 operator instances up to the bound, every adversarial operand at every operand position followed by every operator, and every small multi-branch layout is rendered to tokens and parsed by join_impl; the parsed structure must equal the rendered one. Exhaustive within the bound.",
        design_ref="DESIGN.md §4 C14",
        note="Trusted: syn/proc-macro2 (lexing, the independent premise check), my table of operator spellings (transcribed from the README), join_impl's public chain-inspection API (a change of that API is a machinery error, exit 2).",
        engine="E1",
    ),
    "C15": dict(
        category="exploration",
        technique="bounded exhaustive enumeration of all symbol sequences over the DSL alphabets through join_impl's parse + generate entry points, outcome classification + conservative reference recogniser (classes E1-E9); exhaustive sweeps of let forms and of operators written between the operands of multi-operand operators",
        text="Every sequence over the DSL symbol alphabets up to the bound is expanded in-process under catch_unwind with a termination watchdog; the outcome must be valid output, a syn error or a documented configuration rejection; structurally invalid inputs (E1-E9) must be rejected, inputs fitting the confident grammar must expand.",
        design_ref="DESIGN.md §4 C15",
        note="Trusted: syn (output validity = parses as syn::Expr), the reference recogniser (conservative: answers 'unsure' outside the confident grammar). Inputs outside the alphabet are not covered.",
        engine="E1",
    ),
    "C19": dict(
        category="exploration",
        technique="bounded exhaustive enumeration of witness programs: exact allocation counts under a counting global allocator (every typed capture chain of length <= 2 with every ~ placement, depth profiles under every branch-handover option, 33/40-branch programs) vs the documented chain; move-only / !Send / borrowing programs compiled through the real macros and compared with the reference",
        text="Int-only depth profiles in join!/try_join! run under a counting allocator (allocation-free iff the reference is); the same shapes over a move-only token (12 macros), Rc values (non-spawning macros, incl. long steps) and borrows of caller locals must compile and agree with the reference. A bounded check of a universal type-level claim: it refutes an added Clone/Send/'static bound or a hidden allocation for these shapes only.",
        design_ref="DESIGN.md §4 C19, §6",
        note=E2_NOTE,
        engine="E2",
    ),
    "C20": dict(
        category="model_checking",
        technique="exhaustive enumeration of expansion histories in one process (all sequences up to depth 3 over the corpus units, up to depth 3/4 over related accepted and rejected invocations, typing sessions over every token prefix of every corpus invocation) against fresh-process outputs + stateless model checking of two concurrent expansions under the baton scheduler at the verif_hooks yield points (preemption-bounded)",
        text="All expansion histories up to the bound over a feature-covering corpus are replayed in one process and every output compared with the fresh-process output; every ordered pair of core units is expanded by two threads under every interleaving of the hook yield points within the preemption bound.",
        design_ref="DESIGN.md §4 C20",
        note=E3T_NOTE + " Interleavings are exhaustive only at hook granularity (hook commit 47e2b50, feature verif_hooks).",
        engine="E1+E3-T",
    ),
    "C16": dict(
        category="exploration",
        technique="exhaustive enumeration of option selections/orders/duplicates through the parser + bounded exhaustive enumeration of joiner programs (profiles x joiner forms x failure subsets) through the real macros vs the reference",
        text="All ordered option selections with and without a duplicate; logging joiners (variadic macro, fixed-arity fn, lazy reverse-order, async) over every depth profile: one call per step with more than one active branch, arity, order; transpose_results(false) with joiner failures; futures_crate_path in a crate without a `futures` dependency.",
        design_ref="DESIGN.md §4 C16",
        note=E2_NOTE,
        engine="E2+E1",
    ),
    "C17": dict(
        category="exploration",
        technique="bounded exhaustive enumeration of dense index layouts (two-digit branch/action/step/operand indices, mixed Process/Err operators at mirrored positions), of all ordered macro pairs in four nesting positions (+ macro as handler operand), of sibling layouts around one deep failing branch (every failure subset), real macros vs the recursively applied reference; nested thread-spawning macros under every schedule",
        text="Dense programs with a distinct-constant capture on every action for (branches, actions) over {2,11,12}^2 (thorough 24), 13-step branches, 13/24 thread branches, fold captures; every ordered pair of the 12 macros with the inner one as direct operand, operand value, inside a capture and inside a handler; value and trace must equal the reference.",
        design_ref="DESIGN.md §4 C17",
        note=E2_NOTE,
        engine="E2",
    ),
    "C18": dict(
        category="fault_enumeration",
        technique="exhaustive fault injection: every single panic position (crossed with failure subsets) x all schedules under the controlled thread scheduler and x all decision sequences on the deterministic executor (incl. the invariant: no quiescent state with a panicked task and a pending macro future); E2 panic sweep: every distinct event site of enumerated programs (captures, wrapper captures, handler operands) panics once, reference and macro alike",
        text="A panic is injected at every single (branch, step) position (for small try programs on top of every failure subset) and the real expansion is run under every order of visible operations: the panic must surface on the caller, nothing of a later step may run, no deadlock.",
        design_ref="DESIGN.md §4 C18",
        note=E3T_NOTE + " " + E3A_NOTE,
        engine="E3-T+E3-A",
    ),
}

REASON_PENDING = "check not built yet (implementation in progress, see DESIGN.md section 11); will be claimed once its engine exists"


def main():
    props = [json.loads(l) for l in open(os.path.join(VERIF, "properties.jsonl"))]
    checks = []
    na = []
    for p in props:
        pid = p["id"]
        c = CLAIMED.get(pid)
        if not c:
            na.append({"property_id": pid, "reason": REASON_PENDING})
            continue
        checks.append({
            "property_id": pid,
            "quick_cmd": "./check %s --tier quick" % pid,
            "thorough_cmd": "./check %s --tier thorough" % pid,
            "evidence_file": "/verif/evidence/%s.json" % pid,
            "replay_cmd_template": "./check replay {path}",
            "engine": c["engine"],
            "level_claimed": {"category": c["category"], "text": c["text"], "design_ref": c["design_ref"]},
            "level_note": c["note"],
            "technique": c["technique"],
        })
    m = {
        "version": 1,
        "setup_cmd": "./check setup",
        "hooks": {
            "guard": "verif_hooks",
            "enable": "cargo feature `verif_hooks` of join_impl: the C20 interleaving harness (work/e1_hooks) depends on join_impl with features=[\"verif_hooks\"]; every other check builds the crate with the feature off",
            "baseline_off_cmd": "cd /repo && cargo test --workspace --no-fail-fast --offline --lib --tests",
            "source_commits": ["47e2b50"],
            "add_only": True,
        },
        "engines": [
            {"name": "E2", "path": "vlib/e2.py + rt/vrt", "serves_properties": sorted(k for k, v in CLAIMED.items() if "E2" in v["engine"]),
             "kind_free_text": "compile-and-run differential explorer: exhaustively enumerated DSL programs x input tables, real macros vs in-binary reference"},
            {"name": "E3-T", "path": "vlib/e3t.py + rt/vsched + rt/vstd", "serves_properties": sorted(k for k, v in CLAIMED.items() if "E3-T" in v["engine"]),
             "kind_free_text": "stateless model checker for the thread-spawning expansions: baton scheduler over real OS threads, DFS over all orders of visible operations, re-execution from choice prefixes"},
            {"name": "E1", "path": "vlib/e1.py + rt/e1", "serves_properties": sorted(k for k, v in CLAIMED.items() if "E1" in v["engine"]),
             "kind_free_text": "in-process expansion explorer: join_impl's parse + generate entry points on exhaustively enumerated token streams / histories, 16 workers, catch_unwind + watchdog"},
            {"name": "E3-A", "path": "vlib/e3a.py + rt/vexec + rt/vtokio", "serves_properties": sorted(k for k, v in CLAIMED.items() if "E3-A" in v["engine"]),
             "kind_free_text": "explicit-state model checker for the async expansions: deterministic executor, harness-owned gate futures and tokio::spawn shim, DFS over all decision sequences with canonical-state pruning (cross-checked unpruned)"},
        ],
        "checks": checks,
        "notes": "Exit codes: 0 held on everything explored; 1 violation (VIOLATION line); 2 machinery error (never a verdict). VERIF_REPO overrides /repo. See DESIGN.md.",
        "not_applicable": na,
    }
    with open(os.path.join(VERIF, "MANIFEST.json"), "w") as f:
        json.dump(m, f, indent=1)
    print("claimed:", [c["property_id"] for c in checks])


main()
