#!/usr/bin/env python3
"""Regenerates /verif/MANIFEST.json from the table below (edit here, not in the JSON)."""
import json
import os

VERIF = os.path.dirname(os.path.dirname(os.path.abspath(__file__)))

E2_NOTE = ("Trusted: rustc/std, the reference renderer R and typed operator table in vlib (boring, transcribed from the README), "
           "vrt's driver. Bounded: chains/profiles/operands beyond the enumerated bound are not covered.")

CLAIMED = {
    "C01": dict(
        category="exploration",
        technique="bounded exhaustive enumeration of the typed operator transition system; every program compiled through the real macros and compared on every input row with the documented method chain (differential, in-binary reference)",
        text="Every path of the typed operator transition system up to the stated length is generated, expanded by the real proc-macros from /repo's working tree, compiled, and run on every row of its input table; value and full callback trace must equal the documented method chain compiled next to it; a well-typed chain whose expansion does not compile is a violation. Exhaustive within the bound, no sampling.",
        design_ref="DESIGN.md §4 C01, §2.1-2.4",
        note=E2_NOTE,
        engine="E2",
    ),
}

REASON_PENDING = "check not built yet (implementation in progress, see DESIGN.md section 11); will be claimed once its engine exists"


def main():
    props = [json.loads(l) for l in open(os.path.join(VERIF, "properties.jsonl"))]
    checks = []
    na = []
    for p in props:
        pid = p["id"]
        c = CLAIMED.get(pid)
        if not c:
            na.append({"property_id": pid, "reason": REASON_PENDING})
            continue
        checks.append({
            "property_id": pid,
            "quick_cmd": "./check %s --tier quick" % pid,
            "thorough_cmd": "./check %s --tier thorough" % pid,
            "evidence_file": "/verif/evidence/%s.json" % pid,
            "replay_cmd_template": "./check replay {path}",
            "engine": c["engine"],
            "level_claimed": {"category": c["category"], "text": c["text"], "design_ref": c["design_ref"]},
            "level_note": c["note"],
            "technique": c["technique"],
        })
    m = {
        "version": 1,
        "setup_cmd": "./check setup",
        "hooks": {
            "guard": "verif_hooks",
            "enable": "cargo feature `verif_hooks` of join_impl (harness crates depend on join_impl with features=[\"verif_hooks\"]); no hook is committed yet — every current check runs on the unmodified crate",
            "baseline_off_cmd": "cd /repo && cargo test --workspace --no-fail-fast --offline --lib --tests",
            "source_commits": [],
            "add_only": True,
        },
        "engines": [
            {"name": "E2", "path": "vlib/e2.py + rt/vrt", "serves_properties": sorted(k for k, v in CLAIMED.items() if v["engine"].startswith("E2")),
             "kind_free_text": "compile-and-run differential explorer: exhaustively enumerated DSL programs x input tables, real macros vs in-binary reference"},
        ],
        "checks": checks,
        "notes": "Exit codes: 0 held on everything explored; 1 violation (VIOLATION line); 2 machinery error (never a verdict). VERIF_REPO overrides /repo. See DESIGN.md.",
        "not_applicable": na,
    }
    with open(os.path.join(VERIF, "MANIFEST.json"), "w") as f:
        json.dump(m, f, indent=1)
    print("claimed:", [c["property_id"] for c in checks])


main()
