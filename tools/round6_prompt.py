#!/usr/bin/env python3
"""Prompt for a round-6+ mutant agent: base prompt (property text + scratch worktree only) + one-line descriptions of the changes other
agents already produced for that property + hunting grounds not asked for before.
usage: tools/round6_prompt.py <property> <worktree>"""
import re
import subprocess
import sys

pid, wt = sys.argv[1], sys.argv[2]
base = subprocess.check_output([sys.executable, "/verif/tools/mutant_prompt.py", pid, wt], text=True)
src = open("/verif/tools/gen_matrix_md.py").read()
ideas = re.findall(r"'(%s-[a-z])': '((?:[^'\\]|\\.)*)'" % pid, src)
print(base)
print("IMPORTANT: do NOT use 'git stash' (shared between worktrees); use 'git diff > file' + 'git checkout -- .' + 'git apply file'.\n")
print("The ideas listed at the end have ALREADY been produced by others for this property (six earlier rounds) — do NOT repeat them or close variants; "
      "find a DIFFERENT mechanism in a different corner of the code. What is wanted now are changes a careful reviewer could wave through, which manifest only under a NARROW trigger. Hunting grounds:\n"
      "  * thresholds: something that only differs from N on (10+/13+/16+/17+/32+ branches, steps, actions per step, captures per step, wrapper nesting depth 3+, option count 3+, thread-name length, nested depth 3);\n"
      "  * two cooperating sites that each look fine alone (a helper changed consistently with one of its two callers only; a flag computed in the parser and consumed in the generator; parser builder vs. generator disagreeing on an index base);\n"
      "  * a condition keyed on the SHAPE of neighbouring branches (the branch before/after is shorter/longer/named/has a wrapper open/ends with an operand-less operator/is a single value without operators);\n"
      "  * sequences: the trigger needs a particular operator followed by a particular other one (possibly across a `~` step boundary, or across `<<<`), or the same operator twice in a row, or an operator at the very first / very last position of the longest branch only;\n"
      "  * the failure/None path of Option-valued try macros vs. Result-valued ones, mixed with handlers and `let` names; branches that fail in step k while another branch FINISHED in step k (or k-1);\n"
      "  * concurrency variants: something that only shows under one particular completion order / thread schedule / poll order / spurious wake-up / a task finishing before its sibling is even created;\n"
      "  * user code that looks unusual to the macro: identifiers that resemble generated names, operands that are themselves macro calls / closures returning closures / `async` blocks / references / labelled loops / `return`- or `?`-containing closures / struct literals / ranges (`0..n`), type operands with generics / paths / lifetimes, shadowing of std names (a local called `Ok`, `Some`, `std`), `#[attr]` on closures; "
      "keep in mind whitespace is NOT visible to a proc-macro.\n"
      "  * answers of the ENVIRONMENT the generated code may ask for (runtime flavour / handle, thread names and ids, available parallelism, panic payload types, whether a JoinHandle is finished) and names in the CALLER'S scope (items called like std / core / Box / Ok, a local macro_rules! named like a std macro, `#![no_implicit_prelude]`-like situations);\n"
      "  * value TYPES nobody tests: references and slices, zero-sized types, unit `()`, tuples, nested Option<Result<..>>, Box<dyn Trait>, impl Trait returns, types with lifetimes, must_use values, types whose Drop has side effects, Result<(), E>, iterators of iterators, bool;\n"
      "  * evaluation ORDER and COUNT of things that are usually pure (the operand of `<|`, the initial expressions of later branches, handler operands, type operands with side-effect-free defaults), temporaries that are dropped earlier/later than in the documented method chain (drop order of values held across a `~` step boundary);\n"
      "  * diagnostics: a structurally invalid input that is now accepted or now panics only in ONE of the 8 macro configurations, or only when it appears in the 2nd+ branch / after a handler / after options.\n"
      "Stay away from the blunt variant of each idea: if ordinary two-branch one-step usage would show it, it is not what is wanted.\n")
print("Already produced (do not repeat):")
for k, d in ideas:
    print("  - " + d.replace("\\'", "'"))
