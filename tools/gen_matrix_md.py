#!/usr/bin/env python3
"""Regenerates seeded/MATRIX.md and the table between the MATRIX markers of DESIGN.md from seeded/*/meta.json."""
import json
import os
import re

V = "/verif"
DESC = {
    'C01-a': 'Err-arm hoisted operand name loses the branch number', 'C01-b': '`?|>@` with a block operand becomes filter_map',
    'C02-a': 'deferred wrapper + explicit `<<<` rejected', 'C02-b': '`?@ >>>` built as filter', 'C02-c': 'wrapper closure `move` in the async variants', 'C02-d': '`|> >>>`/`!> >>>` whose inner chain ends in `->` dropped as "no-op"',
    'C03-a': '`~` on a wrapper operator dropped', 'C03-c': 'tail steps of the first of two tied deepest branches merged',
    'C04-a': 'swap_remove reorders finished branches', 'C04-b': 'try-async final tuple: active branches first', 'C04-c': 'let names sorted through a BTreeSet', 'C04-d': 'branch index recovered by structural equality (identical branches)',
    'C05-a': 'per-step check only for branches continuing', 'C05-b': 'no check when a single branch is active', 'C05-c': 'match arms keyed by branch index again (F1 reintroduced)', 'C05-d': '`~` on a wrapper operator dropped',
    'C06-a': 'same as C05-b (trace)', 'C06-b': '`~op >>>` merged into the previous step', 'C06-c': 'branches ending in the step unchecked',
    'C07-a': '`__tb` unwraps the caller name (unnamed caller panics)', 'C07-b': '`try_spawn!` wired to the non-spawn config',
    'C08-a': 'lone branch after a multi-branch step gets a thread', 'C08-b': 'thread named by active position', 'C08-c': 'last-step try threads joined inside and_then (siblings detached on failure)', 'C08-d': 'unnamed caller gives `_join_0`',
    'C09-a': 'single-branch async macro evaluates eagerly', 'C09-b': 'runtime handle taken at construction', 'C09-c': '"plain" later steps awaited sequentially (`->` may pend)', 'C09-d': 'step-0 block captures hoisted out of the future',
    'C10-a': '`-> {block}` evaluated twice', 'C10-b': 'Err-arm name indices swapped (mirror clash)',
    'C11-a': '`-> {block}` no longer hoisted', 'C11-b': 'Err-arm capture defined before earlier captures', 'C11-c': 'fold/try_fold: block as SECOND operand only not hoisted', 'C11-d': 'initial block of branch 0 not hoisted',
    'C12-a': 'lonely tail steps merged (stale own name)', 'C12-b': 'name bound to position among named branches',
    'C13-a': 'try-async handler args: active branches first', 'C13-b': '`then` accepted by try-async macros', 'C13-c': 'second handler of a different kind accepted', 'C13-d': 'no abort for a lone failing branch (handler runs)',
    'C14-a': 'determiner reorder (needs the rotation bug)', 'C14-b': 'operand ending in a closing delimiter taken as complete', 'C14-c': '`~` after an operand-less operator consumed but not deferred', 'C14-d': 'handler look-alike ends an incomplete operand',
    'C15-a': '`~<<<` no longer rejected', 'C15-b': 'duplicate lazy_branches accepted',
    'C16-a': 'sync joiner chosen by branch count', 'C16-b': 'three option passes', 'C16-c': 'explicit lazy_branches(true) ignored on async macros', 'C16-d': 'duplicate check of lazy_branches tests transpose_results',
    'C17-a': 'Err-arm name indices swapped', 'C17-b': 'brace macro calls hoisted as blocks', 'C17-c': 'capture names restart inside each wrapper', 'C17-d': 'thread number = position among live branches',
    'C18-a': 'finished branch joined at the end', 'C18-b': 'last-step threads joined lazily', 'C18-c': 'tail of the single deepest branch appended to the last joint step',
    'C19-a': 'wrapper closure made `move`', 'C19-b': 'long async steps `.boxed()` (Send)',
    'C20-a': 'match arms in HashMap order', 'C20-b': 'sticky static "needs __inspect" flag', 'C20-c': 'thread-local name cache poisoned by non-dense index requests', 'C20-d': 'generated-name prefix in a process-wide static reset per expansion',
    'C01-c': 'process-side hoisted definitions emitted in reverse order', 'C01-d': 'async `~->` passes the resolved value instead of a future',
    'C06-d': 'failure check dropped for steps of "non-failing" operators (misses ?>, >^>, ^^> on Option)',
    'C07-c': 'async-spawn try macros wait for all tasks (no fail-fast, lowest index wins)', 'C07-d': 'spawn helper bound `T: Send + Sync`',
    'C10-c': 'handler operand bound lazily (0 evaluations on failure)', 'C10-d': '`<| {block}` no longer hoisted',
    'C12-c': 'let ident re-spanned to the call site (hygiene through macro_rules!)', 'C12-d': 'earlier capture definitions dropped before an Err-arm block operand',
    'C15-c': 'final try step built from `let` patterns (`let mut` gives invalid output)', 'C15-d': 'hoisted `??`/`->` block operands bypass their special expansion (panic / invalid output)',
    'C19-c': 'captures inside wrappers `.clone()`d', 'C19-d': 'bare `move` closures hoisted like blocks',
    # round 3 (asked for corners that need something specific to manifest)
    'C01-e': 'wrapper balance counted before the per-step reset: `~op >>> .. <<<` rejected', 'C01-f': 'typed `<->`: the two container types swapped',
    'C02-e': 'block captures directly inside `??`/`?|>`/`?@`/`?|>@`/`?&!>` wrappers no longer hoisted', 'C02-f': 'async `??` inside a wrapper inspects the whole value instead of calling the value\'s own inspect',
    'C03-b': '`~` ignored on operators without an expression operand (`~^^>`, `~|n>`, `~=>[]`, `~<->`)',
    'C04-e': 'Err-arm hoisted operand name loses the branch index (later branch shadows the earlier one)',
    'C05-e': 'failure scan order: continuing branches before finishing ones (not the lowest-numbered failure)',
    'C06-e': 'no failure check when one branch is active in a non-final step', 'C06-f': 'failure check over the first N result variables instead of the active ones',
    'C07-e': '`<| {block}` no longer hoisted: evaluated inside the spawned thread',
    'C08-e': 'parallel step count wrong when the second-deepest branch precedes the deepest', 'C08-f': 'thread-name prefix cached per expansion site in a static',
    'C09-e': 'tokio task created lazily at the first poll of its handle (operand awaited in place blocks earlier branches)', 'C09-f': '`lazy_branches(false)` switches task spawning off',
    'C10-e': 'abort check only over branches that continue (later steps run after a finishing branch failed)', 'C10-f': '`?|>@` with hoisted block operand / as wrapper rebuilt as filter_map',
    'C11-e': 'non-spawn `lazy_branches(true)`: hoisted blocks emitted inside the branch closure', 'C11-f': 'blocks inside a `?? >>>` wrapper not hoisted',
    'C12-e': 'deferred wrapper opener does not start a step (captures see stale names)', 'C12-f': 'try-async: `let mut` names rebound without `mut` in non-final steps',
    'C13-e': 'async try + transpose_results(true): `map` handler gets the raw Option/Result and always runs',
    'C14-e': 'comma after an operand with an odd number of top-level `|` not taken as delimiter', 'C14-f': 'no operator recognised right after a punctuation token glued to it (`Vec<_>..len()`, `x?..m()`)',
    'C15-e': 'non-transposing try macros with equal depths: transposer fold(None).unwrap() panics', 'C15-f': 'handler-only body reaches the generator\'s unwrap (panic instead of "at least 1 branch")',
    'C16-e': 'transpose_results(false) ignored in steps with a single active branch', 'C16-f': 'futures_crate_path: leading `::` dropped',
    'C17-e': 'no abort check for a lone live branch (value depends on the number of live siblings)', 'C17-f': 'hoisted definitions of a two-operand operator emitted in reverse order',
    'C18-d': '`<| {block}` not hoisted: a panicking block inside an uninvoked wrapper closure never runs', 'C18-e': 'join_async_spawn!: handles awaited in branch order (panic of a later task waits for an earlier pending one)',
    'C19-e': 'sequential macros with lazy_branches(true) build unused thread builders (allocation)',
    'C20-e': 'process-wide memo of "accepted" operands records a rejected one', 'C20-f': 'thread-local memo of valid streams keyed by text only (Expr vs Type)',
    # round 4
    'C01-g': 'non-try async macros no longer import TryStreamExt (documented chains on Result streams stop compiling)',
    'C02-g': '`X >>> -> f <<<` shortcut to `.x(f)`: the operand f is evaluated eagerly, once, outside the closure',
    'C03-d': 'join_spawn!: thread of a finished unnamed branch joined only at the end (next step starts while it runs)',
    'C04-f': 'non-try: tail of the deepest branch merged; with two co-deepest branches the others lose their last steps',
    'C05-f': 'per-step success test elided for steps whose deferred operator "cannot fail" (later instant operators can)',
    'C06-g': 'block captures of step k+1 evaluated before the failure check of step k',
    'C07-f': 'spawn decision counts branches with depth >= step: the first lone step of the deepest branch is spawned',
    'C08-g': 'a step that is only a deferred operator with a block operand runs inline on the caller', 'C08-h': 'join of a finished unnamed branch postponed to the end (non-try)',
    'C09-g': 'join_async_spawn!: handles awaited one after another (a completing later branch does not wake the future)', 'C09-h': 'try task-spawning macros joined with join! (no short-circuit while a sibling is pending)',
    'C10-g': 'deferred wrapper opener no longer starts a step (runs although a sibling failed in the previous step)', 'C10-h': 'fold/try_fold: hoisted definitions of the two operands in reverse order',
    'C11-g': 'hoisted definitions kept in a BTreeMap keyed by generated name (lexicographic order from index 10 on)', 'C11-h': 'fold/try_fold: callback block evaluated before the initial-value block',
    'C12-g': 'try-async: single-step named branches bound raw (captures see 5 instead of Ok(5))', 'C12-h': 'first capture of a step named with swapped (branch, action) indices',
    'C13-f': '`and_then` handler accepted by the non-try macros (is_and_then() tests Map)',
    'C14-g': 'untyped `=>[]` / `<->` followed by an operator starting with `<` read as the start of a type', 'C14-h': '`?|>@ >>>` built as the filter_map wrapper',
    'C15-g': 'wrapper balance checked only at the end of a step (`a <<< => >>> |> f` reaches a generator panic)', 'C15-h': 'operator between the operands of a multi-operand operator silently dropped',
    'C16-g': 'lazy branches: a branch that is a `|| e` closure literal is not wrapped (the joiner calls the user closure)', 'C16-h': 'non-macro custom joiner emitted as `(joiner)(..)` (method joiners stop compiling)',
    'C17-g': 'spawn decision from the total branch count: a lone step is spawned once another branch has finished', 'C17-h': 'handler operand evaluated after the steps',
    'C18-f': 'map/and_then handler operand evaluated inside the success closure (its panic is swallowed on failure)',
    'C19-f': 'lazy iterator adaptor left open at a step boundary is collected into a Vec', 'C19-g': 'failure path of sync try macros collects the failed indices into a Vec',
    # round 5
    'C08-i': 'is_block_expr widened to if / match / unsafe / loop: such operands are hoisted and evaluated by the caller', 'C08-j': '`try_spawn!` alias configured with is_spawn: false',
    'C09-i': 'the last active branch of a step is not spawned (polled inside the macro\'s own future)', 'C09-j': '`try_async_spawn!` alias configured with is_spawn: false',
    'C10-i': 'parenthesised / grouped blocks `({ .. })` hoisted like block captures',
    'C11-i': 'hoisted blocks of step k+1 emitted before the failure check of step k (sync try)', 'C11-j': 'statement-less value blocks `{ call() }` of single-operand operators not hoisted',
    'C12-i': 'deferred error-side operators (`~<|`, `~<=`, `~!>`) do not start a step (captures read names one step stale)',
    'C13-g': 'async macros evaluate the handler operand after the steps', 'C13-h': 'thread-spawning macros evaluate the handler operand lazily at the call site (never on failure)',
    'C14-i': 'generator: `~` lost on an operator followed by `>>>`', 'C14-j': 'generator: typed `<->` emits its last two types swapped',
    'C15-i': 'non-identifier let pattern accepted when the value contains `&&` / `||`', 'C15-j': 'junk after an operand-less operator behind a block operand becomes a new branch',
    'C16-i': 'explicit lazy_branches(..) applied twice on the thread-spawning macros (branches never run)', 'C16-j': 'lazy branch closures are `move` only in the spawn macros',
    'C17-i': 'wrapper closure made `move` (writes to Copy locals go to a private copy)', 'C17-j': 'thread-name prefix cached in a per-call-site static OnceLock',
    'C18-g': 'wrapper placeholder member loses the Deferred flag (`~op >>>` merges into the previous step)',
    'C19-h': 'success flags of a step with more than 32 active branches built with vec!',
    'C20-g': 'thread-local "last matched operator" hint tried first (`=>` wins over `=>[]` after a history ending in `=>`)', 'C20-h': 'thread-local registry of let names cleared only on the success path',
    # round 6
    'C01-h': 'initial operand no longer parenthesised when it is a unary / reference expression (`-x ..abs()` = -(x.abs()))', 'C01-i': '`..` followed by an integer literal read as a range (tuple field access `pair ..0` breaks)',
    'C02-h': 'wrapper placeholder member built afresh (loses Deferred): `~X >>>` nests inside the wrappers still open', 'C03-e': 'try macros: `~<|`, `~<=`, `~!>` do not start a step',
    'C04-g': 'indexed step result chosen by total branch count: try-async lone non-final step reads `.0` of a bare value', 'C05-g': 'success flags / arms built from the first N result variables (position used as branch index)',
    'C06-h': 'success flags over all result variables, arms keyed by active position, fall-through arm runs the next step', 'C07-g': '`__spawn_tokio` returns a boxed non-Send future (task-spawning macro futures are !Send)',
    'C07-h': 'thread name capped at 96 bytes by byte slicing (long non-ASCII caller name panics)', 'C08-k': 'initial value hoisted to the caller when a later instant operator of step 0 has a block operand',
    'C09-k': 'on a current-thread runtime the branch is polled in place instead of being spawned (runtime flavour query)', 'C10-j': '`let x = a || b`: everything right of the first lazy operator dropped',
    'C11-k': 'Err-side hoisted operand named with swapped (branch, position) indices', 'C11-l': 'labelled blocks no longer recognised as block operands',
    'C12-j': 'hoisted-name cache: a capture at the same in-step position of a later step is dropped (stale name values)', 'C12-k': '`let` looked for one level deep only (`let a = x || y || z`)',
    'C13-i': 'async macros: non-closure handler operand evaluated when the future is constructed', 'C13-j': 'handlers in front of the first branch parsed in the option loop (duplicates accepted, last wins)',
    'C14-k': 'determiner table skipped when the next token is not punctuation (handler after a block operand without comma)', 'C14-l': 'an operand that is a single number literal swallows a following `..`',
    'C15-k': 'let name re-created with Ident::new (raw identifiers panic)', 'C15-l': 'wrapper balance not reset at `~op >>>` (unmatched `<<<` reaches a generator panic)',
    'C16-k': 'non-macro custom joiner bound once with `let` (generic fn instantiated by the first joined step)', 'C16-l': 'option loop progress flag not set by lazy_branches (lazy_branches first ends the option section)',
    'C17-k': '`-> {block}` operands not hoisted', 'C17-l': '`std::thread::current()` without leading `::` in the thread-builder helper',
    'C18-h': '`let x = a || b`: right operand (and its panic) dropped', 'C19-i': '`~??` in sync macros borrows `{ prev }` and moves it again (requires Copy)',
    'C20-i': 'helper definitions memoised behind a Mutex whose guard is alive across a panicking misconfigured expansion (poisoned afterwards)',
    # round 7
    'C01-j': 'wrapper closures become `move` (writes to captured Copy locals go to a private copy)', 'C01-k': 'an operand ending in `?` swallows the following operator / comma',
    'C02-i': 'end-of-step closing of open wrappers bounded one short in later steps (a step that is only `~X >>>` openers keeps a wrapper unclosed)', 'C03-f': '`~` on the operator that follows an operand-less operator (`<<<`, `^^>`, `|n>`, untyped `=>[]`) is swallowed',
    'C05-h': 'hoisted-operand names of later actions built with swapped (branch, action) indices (branch 0 applies another branch\'s closure)', 'C06-i': 'failure check skipped for a branch whose next step starts with `~!>`',
    'C07-i': 'runtime handle resolved at the start of every task-spawning expansion (single-branch programs need a runtime)', 'C08-l': 'the step\'s "last" thread (picked by index == active count) is spawned and joined in place',
    'C08-m': 'an empty caller name is treated as unnamed', 'C09-l': 'async steps wider than 16 branches are joined group by group (branches 16+ wait for 0..15)',
    'C09-m': 'async macros: a block-valued handler operand is evaluated when the future is built', 'C10-k': 'sync try: no failure check after a step with a single active branch (later non-short-circuiting operators and captures run)',
    'C11-m': 'per-wrapper-level definition streams joined inner-first (a block inside a wrapper is evaluated before an earlier block outside it)',
    'C13-k': 'a second handler is parsed as a branch (`map => g` becomes `(map).and_then(g)`)', 'C14-m': 'operand completeness not re-checked for operators of 3+ tokens (`|n| n > 2` splits at `|n>`)',
    'C14-n': 'a handler in front of the first branch is parsed as a branch', 'C15-m': 'wrapper determiner `>>` `>` counted in token trees (junk after `>>` erased and accepted)',
    'C15-n': 'precomputed name tables of 16 entries indexed with `<=` (17 branches / 17 steps panic)', 'C16-m': 'sync try + transpose_results(false): step values re-wrapped in Ok at every step boundary',
    'C16-n': 'transpose_results(true) applied to non-try macros (results transposed, later steps dropped)', 'C17-m': 'hoisted definitions carried in a BTreeMap keyed by name (lexicographic order from index 10 on)',
    'C18-i': 'task-spawning macros build the chain of a continued step inside the task (an operand panic becomes a JoinError a failing sibling can pre-empt)', 'C19-j': '`-> {block}`: the hoisted callable is called through an immutable binding (FnMut closures rejected)',
    'C04-h': 'active branches of a step kept in one machine word (65+ branches: shift overflow panic)', 'C12-l': 'spawn variants: the first `~` of a branch whose step 0 is only a block value does not start a step (names one step ahead / stale)',
    'C20-j': 'async/sync choice of `??` rendering passed through a process-wide static (a concurrent sync expansion flips it)',
    # round 8
    'C01-l': '`__inspect` helper emitted only when a `??` is found after the first action of a step (`~??` alone: helper missing)', 'C01-m': 'handler look-alike determiner no longer validated (`=> then => f` with a value called `then` is cut)',
    'C03-g': 'single-branch macros: a `~` does not start a step unless a wrapper is open', 'C06-j': 'sync try steps wider than 32: success flags checked in chunks_exact(32) (the partial tail chunk is never checked)',
    'C07-j': 'task-spawning try macros joined with tokio::try_join! (round-robin polling: another failing branch of the same step may win)', 'C07-k': '`tokio::spawn` without the leading `::` in the spawn helper',
    'C08-n': 'inherited part of the thread name truncated to 128 characters', 'C09-n': 'non-try async: a new step is started after 16 members of a step (the tail of a long chain waits for the siblings)',
    'C10-l': 'async macros: `??` inside a wrapper uses the sync inspect helper (callback count differs for None / Err / iterators)', 'C13-l': 'sync try: branches whose step uses only `|>`, `??`, `?>`, error-side operators are left out of the failure check (`?>` on Option can fail)',
    'C14-o': 'initial operand with a leading unary operator no longer parenthesised (generator)', 'C14-p': 'a punctuation-free operand prefix is accepted as complete (`if a <= b {..}` is cut at `<=`)',
    'C15-o': 'an empty wrapper `op >>> <<<` is collapsed by the unit parser (the builder balance stays one too high: an unmatched `<<<` reaches a generator panic)',
    'C16-o': 'indexed step-result name decided by total branch count (async try, un-transposed path, lone non-final step)', 'C16-p': 'explicit `lazy_branches(false)` lost on the thread-spawning macros (callable branches are returned un-called)',
    'C18-j': 'thread joins in two phases (all `join()`s, then all `unwrap()`s): a panic reaches the caller only after every sibling has finished',
}
rows = []
for m in sorted(os.listdir(os.path.join(V, "seeded"))):
    p = os.path.join(V, "seeded", m, "meta.json")
    if not os.path.isfile(p):
        continue
    d = json.load(open(p))
    rows.append((m, d["breaks_property"], d.get("detected_by", []), d.get("round", 1), d.get("status", "")))
tab = ["| change | round | what it does | detected by |", "|---|---|---|---|"]
for m, prop, det, rnd, st in rows:
    note = ""
    if m == "C16-b":
        note, det = " (obsolete after the F4 fix; on base 9ace05e detected by C15)", det or ["C15 (base tree)"]
    if m == "C14-a":
        note, det = " (harmless after the F5 fix; on base 9ace05e C14 reports 968 vs 696 violating inputs)", det or ["C14 (base tree)"]
    tab.append("| %s | %d | %s | %s%s |" % (m, rnd, DESC.get(m, ""), ", ".join(det), note))
open(os.path.join(V, "seeded", "MATRIX.md"), "w").write("# Seeded changes x quick checks\n\nGenerated by tools/gen_matrix_md.py from seeded/*/meta.json.\n\n" + "\n".join(tab) + "\n")
p = os.path.join(V, "DESIGN.md")
s = open(p).read()
s = re.sub(r"<!-- MATRIX-BEGIN -->.*?<!-- MATRIX-END -->", "<!-- MATRIX-BEGIN -->\n" + "\n".join(tab) + "\n<!-- MATRIX-END -->", s, flags=re.S)
open(p, "w").write(s)
own = sum(1 for m, prop, det, _, _ in rows if prop in det)
print(len(rows), "changes;", own, "detected by their own property's check")
