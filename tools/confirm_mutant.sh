#!/bin/bash
# usage: tools/confirm_mutant.sh <seed-id> <property> <patch.diff> <demo.rs> [notes.md]
# Confirms, in a scratch worktree outside /repo and /verif: (1) patch applies + workspace compiles,
# (2) the repository's 80 tests pass with it, (3) the demo fails with it, (4) the demo passes without it.
# On success stores /verif/seeded/<seed-id>/{patch.diff,demo.rs,notes.md,meta.json}.
set -u
id="$1"; prop="$2"; patch="$3"; demo="$4"; notes="${5:-}"
WT=${WT:-/tmp/confirm_wt}
if [ ! -d $WT ]; then git -C /repo worktree add -q --detach $WT HEAD && cp -r /repo/target $WT/target; fi
cd $WT && git checkout -q --detach $(git -C /repo rev-parse HEAD) && git checkout -- . && rm -f join/tests/demo.rs
git apply "$patch" || { echo "$id: PATCH DOES NOT APPLY"; exit 1; }
suite=$(cargo test --workspace --offline --lib --tests 2>&1 | grep -E "^test result" | awk '{p+=$4; f+=$6} END {print p" passed "f" failed"}')
cp "$demo" join/tests/demo.rs
with=$(cargo test --offline -p join --test demo 2>&1 | grep -E "^test result|error(\[|:)" | head -3 | tr '\n' ' ')
git checkout -- . 
without=$(cargo test --offline -p join --test demo 2>&1 | grep -E "^test result|error(\[|:)" | head -3 | tr '\n' ' ')
rm -f join/tests/demo.rs
echo "$id: suite_with_change=[$suite] demo_with_change=[$with] demo_without=[$without]"
okp=$(echo "$suite" | grep -c "^80 passed 0 failed")
fw=$(echo "$with" | grep -c "FAILED")
# a demo that no longer compiles with the change (e.g. a valid macro input is now rejected) also fails with it
if [ "$fw" = 0 ] && echo "$with" | grep -q "error" && ! echo "$with" | grep -q "test result: ok"; then fw=1; fi
pw=$(echo "$without" | grep -c "test result: ok")
if [ "$okp" = 1 ] && [ "$fw" = 1 ] && [ "$pw" = 1 ]; then
  d=/verif/seeded/$id; mkdir -p $d; cp "$patch" $d/patch.diff; cp "$demo" $d/demo.rs; [ -n "$notes" ] && cp "$notes" $d/notes.md
  python3 - "$id" "$prop" "$suite" "$with" "$without" <<'PY'
import json,sys
id,prop,suite,w,wo=sys.argv[1:6]
json.dump({"id":id,"breaks_property":prop,"base_commit":"9ace05e","confirmed":{"repo_suite_with_change":suite,"demo_with_change":w.strip(),"demo_without_change":wo.strip(),
 "how":"tools/confirm_mutant.sh in a scratch worktree: git apply patch; cargo test --workspace --offline --lib --tests; demo copied to join/tests/demo.rs and run with and without the patch"},
 "needs_to_manifest":"see notes.md","detected_by":[]},open("/verif/seeded/%s/meta.json"%id,"w"),indent=1)
PY
  echo "$id: CONFIRMED"
else
  echo "$id: NOT CONFIRMED"
fi
