#!/bin/bash
# usage: tools/confirm_lanes.sh <jobs file> <nlanes> <round> <worktree 0> <worktree 1> ...   — confirms seeded changes in parallel lanes
# (each line of the jobs file: <seed-id> <property> <patch> <demo> <notes>)
jobs=$1; nl=$2; round=$3; shift 3
wts=("$@")
for k in $(seq 0 $((nl-1))); do
  ( i=0; while read -r sid prop pf df nf; do
      if [ $((i % nl)) -eq $k ]; then
        WT=${wts[$k]} timeout 1500 /verif/tools/confirm_mutant.sh $sid $prop $pf $df $nf 2>&1 | grep -E "CONFIRMED|APPLY|suite_with"
        if [ -d /verif/seeded/$sid ]; then python3 - $sid $round <<'PY'
import json,sys
p='/verif/seeded/%s/meta.json'%sys.argv[1]
d=json.load(open(p)); d["round"]=int(sys.argv[2]); d['base_commit']='337e2c9'; json.dump(d,open(p,'w'),indent=1)
PY
        fi
      fi
      i=$((i+1))
    done < $jobs ) &
done
wait
