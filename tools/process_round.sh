#!/bin/bash
# usage: tools/process_round.sh <out-dir> <property> <checks...>
# Confirms patch.diff/patch2.diff (+demo.rs/demo2.rs) of a finished mutant agent under the next free seeded ids of the property,
# then runs the given quick checks against each confirmed change (applied to /repo, reverted afterwards).
cd /verif
D=$1; P=$2; shift 2
for pair in "patch.diff demo.rs" "patch2.diff demo2.rs" "patch3.diff demo3.rs"; do
  set -- $pair "$@"; pf=$1; df=$2; shift 2
  [ -f $D/$pf ] || continue
  suf=""; for l in a b c d e f g h i j; do [ -d seeded/$P-$l ] || { suf=$l; break; }; done
  timeout 1500 tools/confirm_mutant.sh $P-$suf $P $D/$pf $D/$df $D/notes.md 2>&1 | grep -E "CONFIRMED|APPLY"
  if [ -d seeded/$P-$suf ]; then
    python3 - $P-$suf <<'PY'
import json,sys
p='/verif/seeded/%s/meta.json'%sys.argv[1]
d=json.load(open(p)); d["round"]=int(__import__("os").environ.get("ROUND","3")); d['base_commit']='47e2b50'; json.dump(d,open(p,'w'),indent=1)
PY
    timeout 3000 tools/try_mutant.sh /verif/seeded/$P-$suf/patch.diff "$@" | cut -c1-100 | sed "s/^/$P-$suf: /"
  fi
done
