#!/usr/bin/env python3
"""Runs ALL quick checks against behaviour-preserving refactorings in scratch worktree lanes: every check must stay silent (exit 0).
usage: tools/refactor_matrix.py <lane> <nlanes> <diff>..."""
import json
import os
import subprocess
import sys

lane, nl = int(sys.argv[1]), int(sys.argv[2])
diffs = sys.argv[3:]
off = lane + int(os.environ.get("LANE_OFFSET", "0"))
wt = "/tmp/lane%d" % off
if not os.path.isdir(wt):
    subprocess.run(["git", "-C", "/repo", "worktree", "add", "-q", "--detach", wt, "HEAD"], check=True)
env = dict(os.environ, VERIF_REPO=wt, VERIF_TARGET="/tmp/lane%d_t" % off, VERIF_WORK="/tmp/lane%d_w" % off)
head = subprocess.check_output(["git", "-C", "/repo", "rev-parse", "HEAD"], text=True).strip()
for i, d in enumerate(diffs):
    if i % nl != lane:
        continue
    subprocess.run(["git", "-C", wt, "checkout", "-q", "--detach", head], check=True)
    subprocess.run(["git", "-C", wt, "checkout", "--", "."], check=True)
    subprocess.run(["git", "-C", wt, "clean", "-fdq", "join_impl/src"], check=True)
    if subprocess.run(["git", "-C", wt, "apply", d]).returncode != 0:
        print(d, "DOES NOT APPLY", flush=True)
        continue
    for c in ["C%02d" % k for k in range(1, 21)]:
        p = subprocess.run(["/verif/check", c, "--tier", "quick"], cwd="/verif", env=env, stdout=subprocess.PIPE, stderr=subprocess.STDOUT, text=True)
        tag = {0: "silent", 1: "ALARM", 2: "machinery-error"}.get(p.returncode, "exit %d" % p.returncode)
        print(os.path.basename(os.path.dirname(d)) + "/" + os.path.basename(d), c, tag, flush=True)
        if p.returncode != 0:
            print("\n".join(p.stdout.splitlines()[-12:])[:2500], flush=True)
    subprocess.run(["git", "-C", wt, "checkout", "--", "."], check=True)
    subprocess.run(["git", "-C", wt, "clean", "-fdq", "join_impl/src"], check=True)
