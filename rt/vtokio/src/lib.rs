//! The part of tokio's API the expansion (and plausible refactorings of it) uses, backed by the deterministic
//! executor rt/vexec: `spawn` enqueues a task that the explorer polls as a separate entity.
pub use vexec::shim::{spawn, JoinError, JoinHandle};
// tokio's own joiners are runtime-free future combinators (round-robin polling): the real ones, explored like futures' joiners
pub use real_tokio::{join, pin, try_join};
pub mod task {
    pub use vexec::shim::{spawn, yield_now, JoinError, JoinHandle};
}
pub mod runtime {
    #[derive(Clone, Copy, Debug, PartialEq, Eq)]
    #[non_exhaustive]
    pub enum RuntimeFlavor {
        CurrentThread,
        MultiThread,
    }
    #[derive(Clone, Debug)]
    pub struct Handle;
    impl Handle {
        /// an environment answer the explorer owns: every task-spawning program is explored under both answers
        pub fn runtime_flavor(&self) -> RuntimeFlavor {
            if vexec::FLAVOR.load(core::sync::atomic::Ordering::SeqCst) == 1 { RuntimeFlavor::CurrentThread } else { RuntimeFlavor::MultiThread }
        }
        pub fn current() -> Handle {
            if !vexec::active() {
                panic!("there is no reactor running, must be called from the context of a Tokio 1.x runtime");
            }
            Handle
        }
        pub fn try_current() -> Result<Handle, ()> {
            if vexec::active() { Ok(Handle) } else { Err(()) }
        }
        pub fn spawn<F>(&self, f: F) -> vexec::shim::JoinHandle<F::Output>
        where
            F: core::future::Future + Send + 'static,
            F::Output: Send + 'static,
        {
            vexec::shim::spawn(f)
        }
    }
}
