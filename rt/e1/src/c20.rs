//! C20 — expansion is a pure function of the input.
//!  * histories: every sequence of expansions up to length L over a corpus, in one process; the output of an
//!    input at any position must equal its output as the FIRST expansion of a FRESH process (child processes);
//!  * interleavings (feature `hooks`, needs join_impl's `verif_hooks` yield points): two threads each
//!    expanding one input under the baton scheduler, every interleaving of yield points up to a preemption bound.
use crate::common::*;
use std::collections::BTreeMap;

pub const CORPUS: [&str; 62] = [
    "a |> f",
    "a |> f ?? g => h",
    "a => f <| b <= g !> h",
    "a |> >>> |> f ?? g <<< => h",
    "a ~|> f ~=> g",
    "a ~|> f ~=> g, b |> h, c ~-> k ~|> l ~?? m",
    "let x = a |> f, let mut y = b ~=> { let x = x; move |v| g(v, x) }",
    "a |> { let q = 1; move |v| v + q } ^@ { z() }, { |acc, v| acc + v }",
    "it ?> p |n> ?|> q >@> other >^> third =>[] Vec<_>",
    "it ?@ p, it2 ?|>@ q, it3 ?&!> r, it4 ^^> ?^@ z, t <-> A, B, Vec<A>, Vec<B>",
    "a, b, c, then => h",
    "a, b, map => h",
    "a, b, and_then => h",
    "a ?? >>> ..x |> f <<<, b",
    "a => >>> => >>> |> f <<< <<< <| d",
    "a ~=> >>> |> f ~|> >>> ?? g",
    "a -> f ..m() >. n ..0",
    "a |> f, b |> f, c |> f, d |> f, e |> f, f0 |> f, g |> f, h |> f, i |> f, j |> f, k |> f, l |> f",
    "a |> f |> f |> f |> f |> f |> f |> f |> f |> f |> f |> f |> f",
    "a ~|> f ~|> f ~|> f ~|> f ~|> f ~|> f ~|> f ~|> f ~|> f ~|> f ~|> f",
    "custom_joiner(jn) a |> f, b ~|> g",
    "lazy_branches(true) a, b ~|> g",
    "transpose_results(false) custom_joiner(jn) a, b ~|> g",
    "futures_crate_path(::fut) a |> f, b",
    "{ a } |> { f }",
    "join! { a, b } -> f, try_join! { c } |> g",
    "a <= >>> !> f <<<, b !> >>> ..g",
    "a ?|> >>> ?> p <<< ?@ >>> ..q",
    "a ?|>@ >>> |> f, b ?&!> >>> ..p",
    "a ^@ z, f ~?^@ z2, g",
    "a =>[] ~<-> ~|n> ~^^>",
    "let n = a ~|> f ~|> g, let m = b ~|> { let n = n; move |v| v + n }",
    "a |> |v| -> i32 { v }, b => |v| if v <= 1 { x } else { y }",
    "a ?? f, b ?? g ~?? h",
    "a ~?? >>> ..f",
    "a |> f ~=> g ~<| h ~<= i ~!> j",
    "a |> { f } => { g } <| { h } <= { i } !> { j }",
    "a, b ~|> f, c ~|> g ~|> h, d ~|> i ~|> j ~|> k, then => hh",
    "a, b ~=> f, c ~=> g ~=> h, d ~=> i ~=> j ~=> k, map => hh",
    "a >@> { b } >^> { c } ?@ { d } ?|>@ { e } ?&!> { f }",
    // named leading branches + an anonymous later one (only `__r2` is generated), non-dense / descending index requests
    "let p = a, let q = b, c |> f",
    "a, b ~|> f, c ~|> g",
    // user identifiers that look like generated ones
    "a |> |__v| __v + 1, b ?? |___x| (), let __r9 = c ~|> |____w| ____w",
    "let z = a, b, let y = c ~=> { let z = z; move |v| v + z } ~|> g, d ~|> h ~|> i ~|> j, then => hh",
    // 44..: related invocations — operands whose proper prefixes are themselves invocations (some of them REJECTED: "half typed"),
    // followed by an operator look-alike in the complete form; the same text once in expression and once in type position
    "Ok::<u8, ()>(1) |> |v| -> u16 { v as u16 + 1 }, b => |v| Ok(v + 1), map => h",
    "Ok::<u8",
    "Ok::<u8, ()>(1) |> |v|",
    "it =>[] Map<u8, u8>, c |> f",
    "it =>[] Map<u8",
    "p =>[] Map<K, V>, o |> |v| v + 1",
    "p <-> K, V, Vec<K>, Map<V, K>",
    "Map < K, K < V, Map < V",
    "Map < K |> |less| !less",
    "it =>[] _, b |> g",
    "_ |> f",
    "a |> |v| -> Vec<u8> { v }, b",
    "a |> |v| -> Vec<u8",
    "Vec < u8 |> |b| !b, c",
    "it =>[] Vec<u8, A>, c",
    "a ^@ Map < K, |x, y| x, b",
    // 60, 61: invocations that are MISCONFIGURED for their related config (a `then` handler in a try macro, futures_crate_path in a
    // macro that is not async): the expansion stops with the documented configuration rejection — that diagnostic is their output,
    // and what they leave behind must not reach any later expansion
    "a |> f, b, then => h",
    "futures_crate_path(::futures) a |> f, b",
];

/// the unit list is computed in a CHILD process: finding out which (input, config) pairs are accepted means expanding them, and that
/// must not be part of this process's history (a recorded history has to be self-contained to be replayable)
fn units(which: &str) -> Vec<(usize, usize)> {
    let exe = std::env::current_exe().unwrap();
    let out = std::process::Command::new(exe).args(["c20", "units", which]).output().expect("child");
    String::from_utf8(out.stdout)
        .unwrap()
        .lines()
        .filter_map(|l| {
            let mut it = l.split_whitespace();
            Some((it.next()?.parse().ok()?, it.next()?.parse().ok()?))
        })
        .collect()
}

fn units_here(which: &str) -> Vec<(usize, usize)> {
    // (corpus index, config) pairs that are accepted
    let mut v = vec![];
    for (i, c) in CORPUS.iter().enumerate() {
        for cfg in 0..8 {
            let rel_cfg = if i % 5 == 0 { 5 } else { 1 };
            if which == "rel" && !(i >= 44 && cfg == rel_cfg) {
                continue;
            }
            if which == "core"
                && !(i < 44
                    && (i % 4 == 1 && (cfg == 0 || cfg == 1 || cfg == 5)
                        || i == 5 && cfg == 3
                        || i == 33 && cfg == 4
                        || i == 40 && (cfg == 0 || cfg == 1)
                        || i == 41 && (cfg == 2 || cfg == 3)
                        || i == 42 && (cfg == 0 || cfg == 4)
                        || i == 10 && cfg == 2))
            {
                continue;
            }
            // accepted invocations, and — for the related group — regularly rejected ones too (their diagnostic is their output)
            let o = expand_str(c, cfg);
            if matches!(o, Outcome::Ok(_)) || (i >= 44 && o.is_rejection()) {
                v.push((i, cfg));
            }
        }
    }
    v
}

fn fresh(i: usize, cfg: usize) -> String {
    let exe = std::env::current_exe().unwrap();
    let out = std::process::Command::new(exe).args(["c20", "one", &i.to_string(), &cfg.to_string()]).output().expect("child");
    String::from_utf8(out.stdout).unwrap()
}

fn expand_out(i: usize, cfg: usize) -> String {
    match expand_str(CORPUS[i], cfg) {
        Outcome::Ok(s) => s,
        o => format!("NOT-OK {:?}", o),
    }
}

pub fn run(args: &[String]) {
    match args[0].as_str() {
        "one" => {
            let i: usize = args[1].parse().unwrap();
            let cfg: usize = args[2].parse().unwrap();
            print!("{}", expand_out(i, cfg));
        }
        "hist" => hist(args),
        "typing" => typing(args),
        "seq" => seq(args),
        "units" => {
            for (i, c) in units_here(&args[1]) {
                println!("{} {}", i, c);
            }
        }
        "conc" => conc(args),
        _ => std::process::exit(2),
    }
}

fn baselines(us: &[(usize, usize)]) -> BTreeMap<(usize, usize), String> {
    // fresh-process outputs, computed in parallel
    let mut hs = vec![];
    for chunk in us.chunks((us.len() + 15) / 16) {
        let chunk = chunk.to_vec();
        hs.push(std::thread::spawn(move || chunk.into_iter().map(|(i, c)| ((i, c), fresh(i, c))).collect::<Vec<_>>()));
    }
    hs.into_iter().flat_map(|h| h.join().unwrap()).collect()
}

fn hist(args: &[String]) {
    let maxlen: usize = args[1].parse().unwrap();
    let which = args[2].clone();
    let shard: usize = args.get(3).and_then(|s| s.parse().ok()).unwrap_or(0);
    let nshards: usize = args.get(4).and_then(|s| s.parse().ok()).unwrap_or(1);
    let t0 = std::time::Instant::now();
    let us = units(&which);
    let base = baselines(&us);
    // a second fresh process must agree with the first (the baseline itself is reproducible)
    let mut nviol = 0u64;
    let mut viols: Vec<String> = vec![];
    for (k, (&(i, c), b)) in base.iter().enumerate() {
        if k % 16 == shard && &fresh(i, c) != b {
            nviol += 1;
            viols.push(format!("{{\"input\":{},\"config\":{},\"what\":\"two fresh processes produce different output for the same invocation\",\"history\":[]}}", jesc(CORPUS[i]), jesc(CONFIG_NAMES[c])));
        }
    }
    let n = us.len();
    let mut expansions = 0u64;
    let mut histories = 0u64;
    let mut distinct_outputs: std::collections::BTreeSet<String> = Default::default();
    // every sequence of length 1..=maxlen
    let mut idx = vec![0usize; 0];
    fn rec(us: &[(usize, usize)], base: &BTreeMap<(usize, usize), String>, idx: &mut Vec<usize>, maxlen: usize, expansions: &mut u64, histories: &mut u64, nviol: &mut u64, viols: &mut Vec<String>) {
        if !idx.is_empty() {
            *histories += 1;
            // run the whole history in order (state can only leak forward), check every position
            for (pos, &u) in idx.iter().enumerate() {
                let (i, c) = us[u];
                let out = expand_out(i, c);
                *expansions += 1;
                if out != base[&(i, c)] {
                    *nviol += 1;
                    if viols.len() < 6 {
                        let h: Vec<String> = idx.iter().map(|&u| format!("{}!{{ {} }}", CONFIG_NAMES[us[u].1], CORPUS[us[u].0])).collect();
                        viols.push(format!(
                            "{{\"input\":{},\"config\":{},\"what\":{},\"history\":[{}]}}",
                            jesc(CORPUS[i]),
                            jesc(CONFIG_NAMES[c]),
                            jesc(&format!("output at position {} of the history differs from the output of the same invocation as first expansion of a fresh process", pos)),
                            h.iter().map(|s| jesc(s)).collect::<Vec<_>>().join(",")
                        ));
                    }
                }
            }
        }
        if idx.len() == maxlen {
            return;
        }
        for u in 0..us.len() {
            idx.push(u);
            rec(us, base, idx, maxlen, expansions, histories, nviol, viols);
            idx.pop();
        }
    }
    // histories are partitioned over processes by their first element
    for u in 0..us.len() {
        if u % nshards != shard {
            continue;
        }
        idx.push(u);
        rec(&us, &base, &mut idx, maxlen, &mut expansions, &mut histories, &mut nviol, &mut viols);
        idx.pop();
    }
    for b in base.values() {
        distinct_outputs.insert(b.clone());
    }
    println!(
        "{{\"mode\":\"c20hist\",\"units\":{},\"maxlen\":{},\"inputs\":{},\"histories\":{},\"expansions\":{},\"distinct_outputs\":{},\"nviol\":{},\"viols\":[{}],\"samples\":[{}],\"secs\":{:.1}}}",
        n,
        maxlen,
        histories,
        histories,
        expansions,
        distinct_outputs.len(),
        nviol,
        viols.join(","),
        us.iter().take(3).map(|(i, c)| format!("{{\"invocation\":{}}}", jesc(&format!("{}!{{ {} }}", CONFIG_NAMES[*c], CORPUS[*i])))).collect::<Vec<_>>().join(","),
        t0.elapsed().as_secs_f64()
    );
}

/// replay of one history: `c20 seq <file>` with one `config<TAB>input` per line; every position is expanded in THIS process in order and
/// compared with the output of the same invocation as the only expansion of a fresh child process
fn seq(args: &[String]) {
    let text = std::fs::read_to_string(&args[1]).expect("read");
    let exe = std::env::current_exe().unwrap();
    for (k, line) in text.lines().enumerate() {
        let (cfgname, input) = match line.split_once('\t') {
            Some(x) => x,
            None => continue,
        };
        let cfg = config_by_name(cfgname).expect("config");
        let here = out_of(input, cfg);
        let tmp = format!("{}.{}", args[1], k);
        std::fs::write(&tmp, input).unwrap();
        let out = std::process::Command::new(&exe).args(["expand", cfgname, &tmp]).output().expect("child");
        let _ = std::fs::remove_file(&tmp);
        let fresh = String::from_utf8(out.stdout).unwrap();
        let same = fresh.trim() == here.trim();
        println!("position {}: {}!{{ {} }}: output equals the fresh-process output: {}", k, cfgname, input, same);
        if !same {
            println!("  in this history: {}\n  fresh process:   {}", &here[..here.len().min(400)], &fresh.trim()[..fresh.trim().len().min(400)]);
        }
    }
}

fn out_of(s: &str, cfg: usize) -> String {
    match expand_str(s, cfg) {
        Outcome::Ok(s) => s,
        o => format!("NOT-OK {:?}", o),
    }
}

/// "typing sessions": for every corpus entry E (accepted configs) and every proper top-level token prefix P of E — most of them
/// rejected invocations — the histories [P, E, P] (E must equal its fresh-process output, P must give the same outcome before and
/// after), and the two cumulative sessions P1, P2, .., E and E, .., P2, P1 (typing forwards / deleting backwards) in one process.
fn typing(args: &[String]) {
    let shard: usize = args.get(1).and_then(|s| s.parse().ok()).unwrap_or(0);
    let nshards: usize = args.get(2).and_then(|s| s.parse().ok()).unwrap_or(1);
    let t0 = std::time::Instant::now();
    let us = units("all");
    let mine: Vec<(usize, usize)> = us.iter().cloned().enumerate().filter(|(k, _)| k % nshards == shard).map(|(_, u)| u).collect();
    let base = baselines(&mine);
    let (mut histories, mut expansions, mut nviol, mut prefixes_rejected, mut prefixes) = (0u64, 0u64, 0u64, 0u64, 0u64);
    let mut viols: Vec<String> = vec![];
    let mut bad = |input: &str, cfg: usize, what: String, h: Vec<String>, viols: &mut Vec<String>, nviol: &mut u64| {
        *nviol += 1;
        if viols.len() < 6 {
            viols.push(format!(
                "{{\"input\":{},\"config\":{},\"what\":{},\"history\":[{}]}}",
                jesc(input),
                jesc(CONFIG_NAMES[cfg]),
                jesc(&what),
                h.iter().map(|s| jesc(s)).collect::<Vec<_>>().join(",")
            ));
        }
    };
    for &(i, cfg) in &mine {
        let e = CORPUS[i];
        let trees: Vec<proc_macro2::TokenTree> = match <proc_macro2::TokenStream as std::str::FromStr>::from_str(e) {
            Ok(ts) => ts.into_iter().collect(),
            Err(_) => continue,
        };
        let pre: Vec<String> = (1..trees.len()).map(|k| trees[..k].iter().cloned().collect::<proc_macro2::TokenStream>().to_string()).collect();
        let b = &base[&(i, cfg)];
        for p in &pre {
            prefixes += 1;
            let p1 = out_of(p, cfg);
            let e1 = out_of(e, cfg);
            let p2 = out_of(p, cfg);
            histories += 1;
            expansions += 3;
            if p1.starts_with("NOT-OK") {
                prefixes_rejected += 1;
            }
            if &e1 != b {
                bad(e, cfg, "output after a prefix of the same invocation was expanded (typing history) differs from the output as first expansion of a fresh process".into(), vec![p.clone(), e.to_string()], &mut viols, &mut nviol);
            }
            if p1 != p2 {
                bad(p, cfg, "the outcome of a (partial) invocation changed after the complete invocation was expanded in between".into(), vec![p.clone(), e.to_string(), p.clone()], &mut viols, &mut nviol);
            }
        }
        // cumulative sessions
        let fwd: Vec<String> = pre.iter().map(|p| out_of(p, cfg)).collect();
        let e1 = out_of(e, cfg);
        let bwd: Vec<String> = pre.iter().rev().map(|p| out_of(p, cfg)).collect();
        let e2 = out_of(e, cfg);
        histories += 2;
        expansions += 2 * pre.len() as u64 + 2;
        if &e1 != b || &e2 != b {
            bad(e, cfg, "output at the end of a typing session (every token prefix expanded first, forwards / then backwards) differs from the output as first expansion of a fresh process".into(), pre.clone(), &mut viols, &mut nviol);
        }
        if fwd.iter().zip(bwd.iter().rev()).any(|(a, b)| a != b) {
            bad(e, cfg, "a prefix of the invocation gives different outcomes when typed forwards and when reached again backwards".into(), pre.clone(), &mut viols, &mut nviol);
        }
    }
    println!(
        "{{\"mode\":\"c20typing\",\"units\":{},\"inputs\":{},\"histories\":{},\"expansions\":{},\"prefixes\":{},\"prefixes_rejected\":{},\"nviol\":{},\"viols\":[{}],\"samples\":[],\"secs\":{:.1}}}",
        mine.len(),
        histories,
        histories,
        expansions,
        prefixes,
        prefixes_rejected,
        nviol,
        viols.join(","),
        t0.elapsed().as_secs_f64()
    );
}

#[cfg(not(feature = "hooks"))]
fn conc(_args: &[String]) {
    println!("{{\"mode\":\"c20conc\",\"error\":\"built without the hooks feature\"}}");
    std::process::exit(2);
}

#[cfg(feature = "hooks")]
fn conc(args: &[String]) {
    use std::sync::atomic::{AtomicUsize, Ordering::SeqCst};
    use std::sync::Mutex;
    let pbound: usize = args[1].parse().unwrap();
    let which = args[2].clone();
    let shard: usize = args.get(3).and_then(|s| s.parse().ok()).unwrap_or(0);
    let nshards: usize = args.get(4).and_then(|s| s.parse().ok()).unwrap_or(1);
    let t0 = std::time::Instant::now();
    let us = units(&which);
    let base = baselines(&us);
    static A: AtomicUsize = AtomicUsize::new(0);
    static B: AtomicUsize = AtomicUsize::new(0);
    static OUT: Mutex<(String, String)> = Mutex::new((String::new(), String::new()));
    static POINTS: AtomicUsize = AtomicUsize::new(0);
    fn hook(label: &'static str) {
        POINTS.fetch_add(1, SeqCst);
        vsched::visible(label);
    }
    join_impl::verif_hook::set(Some(hook));
    fn body() -> String {
        let (a, b) = (A.load(SeqCst), B.load(SeqCst));
        let spawn = |u: usize, first: bool| {
            let idx = vsched::register(None);
            let h = std::thread::spawn(move || {
                let _g = vsched::OsGuard::new();
                vsched::enter(idx);
                let (i, c) = (u / 8, u % 8);
                let out = expand_out(i, c);
                {
                    let mut o = OUT.lock().unwrap();
                    if first {
                        o.0 = out;
                    } else {
                        o.1 = out;
                    }
                }
                vsched::finish(idx, false);
            });
            (idx, h)
        };
        let t1 = spawn(a, true);
        let t2 = spawn(b, false);
        for (idx, h) in [t1, t2] {
            vsched::block_join(idx);
            h.join().unwrap();
        }
        String::new()
    }
    let mut schedules = 0u64;
    let mut decisions = 0u64;
    let mut states = 0usize;
    let mut pairs = 0u64;
    let mut nviol = 0u64;
    let mut viols: Vec<String> = vec![];
    let mut capped = false;
    let mut max_points = 0usize;
    let mut k = 0usize;
    let mut uncontrolled = 0u64;
    for &(i1, c1) in &us {
        for &(i2, c2) in &us {
            k += 1;
            if (k - 1) % nshards != shard {
                continue;
            }
            pairs += 1;
            A.store(i1 * 8 + c1, SeqCst);
            B.store(i2 * 8 + c2, SeqCst);
            let b1 = base[&(i1, c1)].clone();
            let b2 = base[&(i2, c2)].clone();
            let mut first_bad: Option<Vec<usize>> = None;
            POINTS.store(0, SeqCst);
            let st = vsched::explore(body, Some("main"), Some(pbound), 400_000, |ex, script| {
                if ex.uncontrolled {
                    uncontrolled += 1;
                }
                let o = OUT.lock().unwrap().clone();
                if (o.0 != b1 || o.1 != b2) && first_bad.is_none() {
                    first_bad = Some(script.to_vec());
                }
            });
            max_points = max_points.max(POINTS.load(SeqCst) / (st.executions.max(1) as usize));
            schedules += st.executions;
            decisions += st.decisions;
            states += st.states;
            capped |= st.capped;
            if let Some(script) = first_bad {
                nviol += 1;
                if viols.len() < 5 {
                    viols.push(format!(
                        "{{\"input\":{},\"config\":{},\"what\":{},\"history\":[{},{}],\"schedule\":{:?}}}",
                        jesc(CORPUS[i1]),
                        jesc(CONFIG_NAMES[c1]),
                        jesc("two concurrent expansions: the output of at least one differs from its sequential fresh-process output under this interleaving of yield points"),
                        jesc(&format!("{}!{{ {} }}", CONFIG_NAMES[c1], CORPUS[i1])),
                        jesc(&format!("{}!{{ {} }}", CONFIG_NAMES[c2], CORPUS[i2])),
                        script
                    ));
                }
            }
        }
    }
    join_impl::verif_hook::set(None);
    println!(
        "{{\"mode\":\"c20conc\",\"uncontrolled\":{},\"units\":{},\"pairs\":{},\"pbound\":{},\"schedules\":{},\"decisions\":{},\"states\":{},\"yield_points_per_execution\":{},\"capped\":{},\"expansions\":{},\"inputs\":{},\"nviol\":{},\"viols\":[{}],\"samples\":[],\"secs\":{:.1}}}",
        uncontrolled,
        us.len(),
        pairs,
        pbound,
        schedules,
        decisions,
        states,
        max_points,
        capped,
        schedules * 2,
        pairs,
        nviol,
        viols.join(","),
        t0.elapsed().as_secs_f64()
    );
}
