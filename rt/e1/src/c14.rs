//! C14 — where branches split: inputs are rendered from a known structure (operator instances + operands);
//! the parsed structure (combinator, deferred, wrap/unwrap, operand tokens, let ident, branch count, handler)
//! must equal the structure the input was rendered from.
use crate::common::*;
use join_impl::chain::expr::{ActionExpr, ErrExpr, InnerExpr, ProcessExpr};
use join_impl::chain::group::{ApplicationType, MoveType};
use join_impl::chain::Chain;
use join_impl::handler::Handler;
use join_impl::JoinInputDefault;
use proc_macro2::{TokenStream, TokenTree};
use quote::ToTokens;
use std::str::FromStr;

// (spelling, combinator name, operand kind: 0 none, 1 expr, 2 two exprs, 3 optional type, 4 optional four types, wrapper-capable)
pub const OPS: [(&str, &str, u8, bool); 22] = [
    ("|>", "Map", 1, true),
    ("=>", "AndThen", 1, true),
    ("->", "Then", 1, false),
    ("..", "Dot", 1, false),
    (">.", "Dot", 1, false),
    ("?>", "Filter", 1, true),
    ("<|", "Or", 1, false),
    ("<=", "OrElse", 1, true),
    ("!>", "MapErr", 1, true),
    ("=>[]", "Collect", 3, false),
    (">@>", "Chain", 1, false),
    ("?|>@", "FindMap", 1, true),
    ("?|>", "FilterMap", 1, true),
    ("|n>", "Enumerate", 0, false),
    ("?&!>", "Partition", 1, true),
    ("^^>", "Flatten", 0, false),
    ("^@", "Fold", 2, false),
    ("?^@", "TryFold", 2, false),
    ("?@", "Find", 1, true),
    (">^>", "Zip", 1, false),
    ("<->", "Unzip", 4, false),
    ("??", "Inspect", 1, true),
];

#[derive(Clone, Debug, PartialEq)]
pub struct Member {
    pub comb: String,
    pub deferred: bool,
    pub mv: &'static str, // "none" | "wrap" | "unwrap"
    pub operands: Vec<String>,
}
#[derive(Clone, Debug, PartialEq)]
pub struct Structure {
    pub branches: Vec<(Option<String>, Vec<Member>)>, // (let ident, members incl. Initial)
    pub handler: Option<(String, String)>,
}

/// token text without whitespace (spacing of re-emitted tokens is not significant)
fn squeeze(s: String) -> String {
    s.chars().filter(|c| !c.is_whitespace()).collect()
}
fn norm(s: &str) -> String {
    TokenStream::from_str(s).map(|t| squeeze(t.to_string())).unwrap_or_else(|_| format!("<unlexable {}>", s))
}

fn comb_name(e: &ActionExpr) -> &'static str {
    match e {
        ActionExpr::Initial(_) => "Initial",
        ActionExpr::Err(e) => match e {
            ErrExpr::Or(_) => "Or",
            ErrExpr::OrElse(_) => "OrElse",
            ErrExpr::MapErr(_) => "MapErr",
        },
        ActionExpr::Process(p) => match p {
            ProcessExpr::Map(_) => "Map",
            ProcessExpr::Dot(_) => "Dot",
            ProcessExpr::Filter(_) => "Filter",
            ProcessExpr::Inspect(_) => "Inspect",
            ProcessExpr::Then(_) => "Then",
            ProcessExpr::AndThen(_) => "AndThen",
            ProcessExpr::Chain(_) => "Chain",
            ProcessExpr::Collect(_) => "Collect",
            ProcessExpr::Enumerate => "Enumerate",
            ProcessExpr::FilterMap(_) => "FilterMap",
            ProcessExpr::Find(_) => "Find",
            ProcessExpr::FindMap(_) => "FindMap",
            ProcessExpr::Flatten => "Flatten",
            ProcessExpr::Fold(_) => "Fold",
            ProcessExpr::Partition(_) => "Partition",
            ProcessExpr::TryFold(_) => "TryFold",
            ProcessExpr::Unzip(_) => "Unzip",
            ProcessExpr::Zip(_) => "Zip",
            ProcessExpr::UNWRAP => "UNWRAP",
        },
    }
}

pub fn parsed_structure(j: &JoinInputDefault) -> Structure {
    let mut branches = vec![];
    for ch in &j.branches {
        let ident = ch.id().map(|p| p.ident.to_string());
        let mut ms = vec![];
        for m in ch.members() {
            let mut operands: Vec<String> = match m.expr() {
                ActionExpr::Process(ProcessExpr::Collect(Some(t))) => t.iter().map(|x| squeeze(x.to_token_stream().to_string())).collect(),
                ActionExpr::Process(ProcessExpr::Unzip(Some(t))) => t.iter().map(|x| squeeze(x.to_token_stream().to_string())).collect(),
                _ => m.inner_exprs().map(|es| es.iter().map(|e| squeeze(e.to_token_stream().to_string())).collect()).unwrap_or_default(),
            };
            let mv = match m.move_type() {
                MoveType::Wrap => "wrap",
                MoveType::Unwrap => "unwrap",
                MoveType::None => "none",
            };
            if mv == "wrap" {
                operands.clear(); // the placeholder closure `|__v| __v` is not user input
            }
            ms.push(Member { comb: comb_name(m.expr()).to_string(), deferred: *m.application_type() == ApplicationType::Deferred, mv, operands });
        }
        branches.push((ident, ms));
    }
    let handler = j.handler.as_ref().map(|h| {
        let k = match h {
            Handler::Map(_) => "map",
            Handler::Then(_) => "then",
            Handler::AndThen(_) => "and_then",
        };
        (k.to_string(), squeeze(h.extract_expr().to_token_stream().to_string()))
    });
    Structure { branches, handler }
}

// ---------------------------------------------------------------------------------------------
// premise: an operand must not contain a top-level split point
// ---------------------------------------------------------------------------------------------
const SPLITTERS: [&str; 27] = [
    "<<<", "=>", "|>", "->", "<|", "<=", ">.", "..", "!>", ">@>", "??", "?>", "?|>@", "?|>", "?&!>", "^^>", "^@", "?^@", "?@", ">^>", "<->", ",", "~", ">>>", "|n>", "=>[]", "HANDLER",
];
fn starts_with_splitter(tts: &[TokenTree]) -> bool {
    for sp in SPLITTERS.iter() {
        if *sp == "HANDLER" {
            if tts.len() >= 3 {
                if let (TokenTree::Ident(i), TokenTree::Punct(a), TokenTree::Punct(b)) = (&tts[0], &tts[1], &tts[2]) {
                    let n = i.to_string();
                    if (n == "map" || n == "then" || n == "and_then") && a.as_char() == '=' && b.as_char() == '>' {
                        return true;
                    }
                }
            }
            continue;
        }
        if *sp == "|n>" {
            if tts.len() >= 3 {
                if let (TokenTree::Punct(a), TokenTree::Ident(i), TokenTree::Punct(b)) = (&tts[0], &tts[1], &tts[2]) {
                    if a.as_char() == '|' && i == "n" && b.as_char() == '>' {
                        return true;
                    }
                }
            }
            continue;
        }
        if *sp == "=>[]" {
            continue; // covered by "=>"
        }
        let cs: Vec<char> = sp.chars().collect();
        if tts.len() >= cs.len() && cs.iter().enumerate().all(|(i, c)| matches!(&tts[i], TokenTree::Punct(p) if p.as_char() == *c)) {
            return true;
        }
    }
    false
}
/// true when the operand (as expression or type) has NO top-level split point
pub fn operand_admissible(text: &str, as_type: bool) -> bool {
    let ts = match TokenStream::from_str(text) {
        Ok(t) => t,
        Err(_) => return false,
    };
    let tts: Vec<TokenTree> = ts.into_iter().collect();
    // whole operand must be a complete expression / type
    let whole: TokenStream = tts.iter().cloned().collect();
    let complete = |t: TokenStream| if as_type { syn::parse2::<syn::Type>(t).is_ok() } else { syn::parse2::<syn::Expr>(t).is_ok() };
    if !complete(whole) {
        return false;
    }
    for i in 0..tts.len() {
        // a `~` anywhere at top level is dropped by the parser (by design): not admissible
        if let TokenTree::Punct(p) = &tts[i] {
            if p.as_char() == '~' {
                return false;
            }
        }
        if i == 0 {
            continue;
        }
        if starts_with_splitter(&tts[i..]) {
            let prefix: TokenStream = tts[..i].iter().cloned().collect();
            if complete(prefix) {
                return false;
            }
        }
    }
    true
}

// ---------------------------------------------------------------------------------------------
// rendering a structure
// ---------------------------------------------------------------------------------------------
#[derive(Clone, Debug)]
pub struct Inst {
    pub op: usize, // index into OPS, usize::MAX = `<<<`
    pub deferred: bool,
    pub wrap: bool,
    pub operands: Vec<String>,
}
pub fn render_chain(init: &str, let_id: Option<&str>, insts: &[Inst], glue: bool) -> (String, (Option<String>, Vec<Member>)) {
    let mut s = String::new();
    if let Some(id) = let_id {
        s.push_str(&format!("let {} = ", id));
    }
    s.push_str(init);
    let mut ms = vec![Member { comb: "Initial".into(), deferred: false, mv: "none", operands: vec![norm(init)] }];
    for it in insts {
        let sep = if glue { "" } else { " " };
        s.push_str(if glue { " " } else { " " });
        if it.deferred {
            s.push('~');
            s.push_str(sep);
        }
        if it.op == usize::MAX {
            s.push_str("<<<");
            ms.push(Member { comb: "UNWRAP".into(), deferred: it.deferred, mv: "unwrap", operands: vec![] });
            continue;
        }
        let (sp, name, _, _) = OPS[it.op];
        s.push_str(sp);
        if it.wrap {
            s.push_str(sep);
            s.push_str(">>>");
            ms.push(Member { comb: name.into(), deferred: it.deferred, mv: "wrap", operands: vec![] });
            continue;
        }
        if !it.operands.is_empty() {
            s.push_str(sep);
            s.push_str(&it.operands.join(if glue { "," } else { ", " }));
        }
        ms.push(Member { comb: name.into(), deferred: it.deferred, mv: "none", operands: it.operands.iter().map(|o| norm(o)).collect() });
    }
    (s, (let_id.map(|x| x.to_string()), ms))
}

fn judge(input: &str, expected: &Structure) -> Option<String> {
    PROGRESS.fetch_add(1, std::sync::atomic::Ordering::SeqCst);
    let ts = match TokenStream::from_str(input) {
        Ok(t) => t,
        Err(_) => return Some("MACHINERY: rendered input does not lex".into()),
    };
    match std::panic::catch_unwind(std::panic::AssertUnwindSafe(|| syn::parse2::<JoinInputDefault>(ts))) {
        Ok(Ok(j)) => {
            let got = parsed_structure(&j);
            if &got != expected {
                // find the first difference for the message
                let mut what = String::new();
                if got.branches.len() != expected.branches.len() {
                    what = format!("{} branches instead of {}", got.branches.len(), expected.branches.len());
                } else if got.handler != expected.handler {
                    what = format!("handler {:?} instead of {:?}", got.handler, expected.handler);
                } else {
                    for (bi, (g, e)) in got.branches.iter().zip(expected.branches.iter()).enumerate() {
                        if g.0 != e.0 {
                            what = format!("branch {}: let name {:?} instead of {:?}", bi, g.0, e.0);
                            break;
                        }
                        if g.1.len() != e.1.len() {
                            what = format!("branch {}: {} actions instead of {}: parsed {:?}", bi, g.1.len(), e.1.len(), g.1.iter().map(|m| m.comb.clone()).collect::<Vec<_>>());
                            break;
                        }
                        if let Some((mi, (gm, em))) = g.1.iter().zip(e.1.iter()).enumerate().find(|(_, (a, b))| a != b) {
                            what = format!("branch {} action {}: parsed {:?}, rendered from {:?}", bi, mi, gm, em);
                            break;
                        }
                    }
                }
                Some(format!("parsed structure differs from the structure the input was rendered from: {}", what))
            } else {
                None
            }
        }
        Ok(Err(e)) => Some(format!("input rendered from a valid structure was rejected: {}", e)),
        Err(_) => Some("parser panicked".into()),
    }
}

// ---------------------------------------------------------------------------------------------
// part A: every chain over the 70 operator instances
// ---------------------------------------------------------------------------------------------
pub fn instances() -> Vec<(usize, bool, bool, u8)> {
    // (op, deferred, wrap, variant) variant: 0 plain, 1 = with type operands (Collect/Unzip)
    let mut v = vec![];
    for d in [false, true] {
        for (i, (_, _, kind, wr)) in OPS.iter().enumerate() {
            v.push((i, d, false, 0));
            if *kind == 3 || *kind == 4 {
                v.push((i, d, false, 1));
            }
            if *wr {
                v.push((i, d, true, 0));
            }
        }
        v.push((usize::MAX, d, false, 0));
    }
    v
}

pub fn mk_inst(t: (usize, bool, bool, u8), counter: &mut usize, closure_ops: bool) -> Inst {
    let (op, deferred, wrap, variant) = t;
    let mut operands = vec![];
    if op != usize::MAX && !wrap {
        let kind = OPS[op].2;
        let mut fresh = |as_closure: bool| {
            *counter += 1;
            if as_closure {
                format!("|v| m{}(v)", *counter)
            } else {
                format!("m{}", *counter)
            }
        };
        let member = OPS[op].1 == "Dot";
        match kind {
            1 => operands.push(fresh(closure_ops && !member)),
            2 => {
                operands.push(fresh(false));
                operands.push(fresh(closure_ops));
            }
            3 => {
                if variant == 1 {
                    *counter += 1;
                    operands.push(format!("T{}", *counter));
                }
            }
            4 => {
                if variant == 1 {
                    for _ in 0..4 {
                        *counter += 1;
                        operands.push(format!("T{}", *counter));
                    }
                }
            }
            _ => {}
        }
    }
    Inst { op, deferred, wrap, operands }
}

struct Acc {
    n: u64,
    nviol: u64,
    viols: Vec<String>,
    samples: Vec<String>,
    excluded: u64,
}
impl Acc {
    fn check(&mut self, input: &str, exp: &Structure, family: &str) {
        self.n += 1;
        if let Some(w) = judge(input, exp) {
            self.nviol += 1;
            if self.viols.len() < 12 {
                self.viols.push(format!("{{\"input\":{},\"what\":{},\"family\":{}}}", jesc(input), jesc(&w), jesc(family)));
            }
        } else if self.samples.len() < 3 && self.n % 50021 == 7 {
            self.samples.push(format!("{{\"input\":{},\"family\":{}}}", jesc(input), jesc(family)));
        }
    }
}

fn part_a(maxlen: usize, acc: &mut Acc, worker: usize, nworkers: usize) {
    let insts = instances();
    // DFS over instance sequences with the wrapper balance of the current step
    fn rec(insts: &[(usize, bool, bool, u8)], cur: &mut Vec<(usize, bool, bool, u8)>, depth: i32, maxlen: usize, acc: &mut Acc) {
        // emit current chain in both renderings
        for glue in [false, true] {
            let mut c = 0usize;
            let is: Vec<Inst> = cur.iter().map(|t| mk_inst(*t, &mut c, glue)).collect();
            let (txt, br) = render_chain("m0", None, &is, glue);
            acc.check(&txt, &Structure { branches: vec![br], handler: None }, "A:chains");
        }
        if cur.len() == maxlen {
            return;
        }
        for t in insts {
            let mut d = if t.1 { 0 } else { depth };
            if t.0 == usize::MAX {
                if d == 0 {
                    continue;
                }
                d -= 1;
            } else if t.2 {
                d += 1;
            }
            cur.push(*t);
            rec(insts, cur, d, maxlen, acc);
            cur.pop();
        }
    }
    // the first operator instance selects the worker; the empty chain belongs to worker 0
    if worker == 0 {
        let (txt, br) = render_chain("m0", None, &[], false);
        acc.check(&txt, &Structure { branches: vec![br], handler: None }, "A:chains");
    }
    if maxlen == 0 {
        return;
    }
    for (i, t) in insts.iter().enumerate() {
        if i % nworkers != worker || t.0 == usize::MAX {
            continue;
        }
        let d = if t.2 { 1 } else { 0 };
        let mut cur = vec![*t];
        rec(&insts, &mut cur, d, maxlen, acc);
    }
}

// ---------------------------------------------------------------------------------------------
// part B: adversarial operands x every operand position x every follower
// ---------------------------------------------------------------------------------------------
const EXPR_CORPUS: [&str; 82] = [
    "then",
    "map",
    "and_then",
    "|v| then",
    "|_| map",
    "|v| -> u8 { and_then }",
    "|v| -> i32 { v }",
    "|v: i32| -> Option<i32> { Some(v) }",
    "|v: u8| -> u8 { v + 1 }",
    "f::<A, B>",
    "Ok::<(u8, u8), ()>",
    "Vec::<Vec<i32>>::new",
    "|v| v.collect::<Vec<Vec<Vec<i32>>>>()",
    "|v| (v <= 1)",
    "|v| [v, v <= 2 as i32]",
    "|v| { v <= 1 }",
    "|v| match v { 1 => 2, _ => 3 }",
    "|v| (a |n> b)",
    "|v| (x? > 1)",
    "|v| { let w = v?; w |> 1 }",
    "join! { p |> q, r => s }",
    "m!(~ <<< >>>)",
    "m![a => b, c -> d]",
    "m! { x ?? y ^@ z }",
    "\"|> ~ <<< , =>\"",
    "'>'",
    "b\"=> ->\"",
    "|v| v >> 1",
    "|v| v > 1",
    "|v| v < 1",
    "|v| v >= 1",
    "|v| if *v <= 3 { true } else { false }",
    "|s| if s.len() <= 2 { 1 } else { 2 }",
    "move |v| v + 1",
    "async move { 1 }",
    "|(a, b)| a + b",
    "|(sum, count), v| (sum + v, count + 1)",
    "|f: fn(u8) -> u8| f(1)",
    "Some::<fn(u8) -> u8>",
    "|v: &mut Vec<Vec<u8>>| v.len()",
    "|a, (i, v)| a + i + v",
    "{ let c = |x| -> u8 { x }; c }",
    "(|v| v, 1).0",
    "|v| v as Vec<Vec<u8>>",
    "<Vec<u8> as IntoIterator>::into_iter",
    "|v| v.iter().map(|x| -> u8 { *x }).sum::<u8>()",
    "|v| &v[1..]",
    "|v| (1..=v)",
    "|| -> Result<u8, u8> { Ok(1) }",
    "|v| !v",
    // operands with single top-level punctuation that also starts operators, and operands ENDING in punctuation
    "a | b",
    "|v| v | 1",
    "|a, b| a | b",
    "a | b | c",
    "a || b",
    "a & b",
    "a ^ b",
    "a < b",
    "a == b",
    "a != b",
    "x?",
    "g()?",
    "|v| v?",
    "|v| v.ok()?",
    "-x",
    "&x",
    "|v| v as Vec<u8>",
    "Vec::<u8>::new()?",
    // closures whose parameter list and body spell an operator when the pipes are read as punctuation (`| n >` = enumerate)
    "|n| n > 2",
    "|n: u8| n >= 5",
    "move |n| n >> 1",
    "|n| n",
    "|n| n > 1 || n < 0",
    // control-flow expressions whose condition / scrutinee / iterator is punctuation-free up to an operator look-alike
    "if a <= b { x } else { y }",
    "if a { b } else { c }",
    "if let Some(v) = a { v } else { b }",
    "match a <= b { true => x, false => y }",
    "match a { _ => b }",
    "for i in 0..n { g(i) }",
    "while a <= b { h() }",
    "if a => b { x } else { y }",
    "loop { break a <= b }",
];
const TYPE_CORPUS: [&str; 8] = [
    "Vec<Vec<i32>>",
    "HashMap<A, B>",
    "[u8; 4]",
    "(A, B)",
    "fn(A) -> B",
    "Box<dyn Fn(A) -> B>",
    "Vec<(u8, Vec<Vec<u8>>)>",
    "std::collections::BTreeMap<u8, Vec<u8>>",
];
const MEMBER_CORPUS: [&str; 7] = ["iter().map(|x| -> u8 { *x })", "get::<A, B>(1)", "0", "await", "collect::<Vec<Vec<u8>>>()", "then", "map"];

/// the operator text `rest` is written directly behind the operand `adv` (no white space): fine unless a splitter that starts INSIDE
/// the operand's tokens now completes across the junction behind a complete prefix (then the input means something else)
fn junction_ok(adv: &str, rest: &str, as_type: bool) -> bool {
    let n_adv = match TokenStream::from_str(adv) {
        Ok(t) => t.into_iter().count(),
        Err(_) => return false,
    };
    let tts: Vec<TokenTree> = match TokenStream::from_str(&format!("{}{}", adv, rest)) {
        Ok(t) => t.into_iter().collect(),
        Err(_) => return false,
    };
    // gluing must not change the tokens themselves (e.g. a literal suffix)
    let sep: Vec<TokenTree> = TokenStream::from_str(&format!("{} {}", adv, rest)).unwrap().into_iter().collect();
    if sep.len() != tts.len() || sep.iter().zip(tts.iter()).any(|(a, b)| a.to_string() != b.to_string()) {
        return false;
    }
    let complete = |t: TokenStream| if as_type { syn::parse2::<syn::Type>(t).is_ok() } else { syn::parse2::<syn::Expr>(t).is_ok() };
    for i in 1..n_adv {
        if starts_with_splitter(&tts[i..]) && complete(tts[..i].iter().cloned().collect()) {
            return false;
        }
    }
    true
}

fn part_b(acc: &mut Acc) {
    let map_op = OPS.iter().position(|o| o.0 == "|>").unwrap();
    let followers: Vec<(usize, bool, bool, u8)> = instances().into_iter().filter(|t| t.0 != usize::MAX).collect();
    for (opi, (_, name, kind, _)) in OPS.iter().enumerate() {
        let positions: usize = match kind {
            1 => 1,
            2 => 2,
            3 => 1,
            4 => 4,
            _ => 0,
        };
        for pos in 0..positions {
            let corpus: Vec<&str> = if *kind == 3 || *kind == 4 {
                TYPE_CORPUS.to_vec()
            } else if *name == "Dot" {
                MEMBER_CORPUS.to_vec()
            } else {
                EXPR_CORPUS.to_vec()
            };
            for adv in corpus {
                let as_type = *kind == 3 || *kind == 4;
                let admissible = if *name == "Dot" { operand_admissible(&format!("r.{}", adv), false) } else { operand_admissible(adv, as_type) };
                if !admissible {
                    acc.excluded += 1;
                    continue;
                }
                // followers: none, and every operator instance
                for fi in 0..=followers.len() {
                    for deferred in [false, true] {
                        let mut c = 0usize;
                        let mut first = mk_inst((opi, deferred, false, 1), &mut c, false);
                        first.operands[pos] = adv.to_string();
                        let mut insts = vec![first];
                        if fi < followers.len() {
                            let f = followers[fi];
                            insts.push(mk_inst(f, &mut c, false));
                        }
                        let (txt, br) = render_chain("m0", None, &insts, false);
                        // white space is not part of the token stream: an operand that ends in punctuation may complete a DIFFERENT
                        // operator together with what follows it (`x? |> f` is `x ?|> f`); such inputs are outside the premise
                        let needle = format!("{} ", adv);
                        let junction = txt.find(&needle).map(|at| (at, txt[at + needle.len()..].to_string()));
                        if let Some((_, rest)) = &junction {
                            if *name != "Dot" && !junction_ok(adv, rest, as_type) {
                                acc.excluded += 1;
                                continue;
                            }
                        }
                        acc.check(&txt, &Structure { branches: vec![br.clone()], handler: None }, "B:adversarial-operand");
                        // the same with NO white space between the adversarial operand and what follows it (same tokens, other spacing flags)
                        if let Some((at, rest)) = &junction {
                            if *name != "Dot" {
                                let tight = format!("{}{}", &txt[..at + adv.len()], rest);
                                acc.check(&tight, &Structure { branches: vec![br.clone()], handler: None }, "B:adversarial-operand-tight");
                            }
                        }
                        // the same followed by a second branch: when the operand is the last thing of the branch, the `,` follows it
                        let second = [mk_inst((map_op, false, false, 0), &mut c, false)];
                        let (t2, b2) = render_chain("m90", None, &second, false);
                        acc.check(&format!("{}, {}", txt, t2), &Structure { branches: vec![br, b2], handler: None }, "B:adversarial-operand-2branches");
                    }
                }
            }
        }
    }
    // adversarial initial values and handler expressions, 1..3 branches
    for adv in EXPR_CORPUS.iter() {
        if !operand_admissible(adv, false) {
            continue;
        }
        // at the START of an item `then =>` / `map =>` / `and_then =>` IS a handler (by design): a bare handler keyword is not an
        // initial value
        if ["then", "map", "and_then"].contains(adv) {
            continue;
        }
        for fi in 0..followers.len() {
            let mut c = 0usize;
            let insts = vec![mk_inst(followers[fi], &mut c, false)];
            let (txt, br) = render_chain(adv, None, &insts, false);
            let rest = txt[adv.len() + 1..].to_string();
            if !junction_ok(adv, &rest, false) {
                acc.excluded += 1;
                continue;
            }
            acc.check(&txt, &Structure { branches: vec![br.clone()], handler: None }, "B:adversarial-initial");
            acc.check(&format!("{}{}", adv, rest), &Structure { branches: vec![br], handler: None }, "B:adversarial-initial-tight");
            let (txt2, br2) = render_chain(adv, Some("nm"), &insts, false);
            acc.check(&txt2, &Structure { branches: vec![br2], handler: None }, "B:adversarial-initial-let");
        }
        // as handler expression (parsed by syn's Expr parser: must be followed by `,` or the end)
        for hk in ["map", "then", "and_then"] {
            let (b0, s0) = render_chain("m0", None, &[], false);
            let txt = format!("{}, {} => {}", b0, hk, adv);
            acc.check(&txt, &Structure { branches: vec![s0.clone()], handler: Some((hk.to_string(), norm(adv))) }, "B:adversarial-handler");
            let txt = format!("{} => {}, {}", hk, adv, b0);
            acc.check(&txt, &Structure { branches: vec![s0], handler: Some((hk.to_string(), norm(adv))) }, "B:adversarial-handler-first");
        }
    }
}

// ---------------------------------------------------------------------------------------------
// part C: several branches, handler at every position, let prefixes, trailing comma
// ---------------------------------------------------------------------------------------------
fn part_c(acc: &mut Acc) {
    let insts = instances();
    let singles: Vec<(usize, bool, bool, u8)> = insts.iter().cloned().filter(|t| t.0 != usize::MAX && !t.2).collect();
    for n in 1..=3usize {
        for (ai, a) in singles.iter().enumerate() {
            for b in singles.iter().skip(ai % 7).step_by(7) {
                for hpos in 0..=n + 1 {
                    // hpos == n+1: no handler
                    for lets in 0..(1u32 << n) {
                        for trailing in [false, true] {
                            let mut c = 0usize;
                            let mut texts = vec![];
                            let mut brs = vec![];
                            for bi in 0..n {
                                let chain: Vec<Inst> = match bi {
                                    0 => vec![mk_inst(*a, &mut c, false)],
                                    1 => vec![mk_inst(*b, &mut c, false), mk_inst(*a, &mut c, true)],
                                    _ => vec![],
                                };
                                let id = format!("n{}", bi);
                                let letid = if lets >> bi & 1 == 1 { Some(id.as_str()) } else { None };
                                let init = format!("i{}", bi);
                                let (t, s) = render_chain(&init, letid, &chain, false);
                                texts.push(t);
                                brs.push(s);
                            }
                            let mut handler = None;
                            if hpos <= n {
                                texts.insert(hpos, "then => |a| hh(a)".to_string());
                                handler = Some(("then".to_string(), norm("|a| hh(a)")));
                            }
                            let mut txt = texts.join(", ");
                            if trailing {
                                txt.push(',');
                            }
                            acc.check(&txt, &Structure { branches: brs, handler }, "C:branches-handlers-lets");
                        }
                    }
                }
            }
        }
    }
}

// ---------------------------------------------------------------------------------------------
// part D: a handler directly after a BLOCK operand (the comma in front of a handler is optional there)
// ---------------------------------------------------------------------------------------------
fn part_d(acc: &mut Acc) {
    let insts = instances();
    let blocks = ["{ m9 }", "{ let k = 1; m9(k) }", "{ |v| m9(v) }", "{ { m9 } }"];
    for t in insts.iter().cloned().filter(|t| t.0 != usize::MAX && !t.2) {
        let (_, name, kind, _) = OPS[t.0];
        if !(kind == 1 || kind == 2) || name == "Dot" {
            continue;
        }
        for blk in blocks.iter() {
            for pre in 0..=2usize {
                // `pre` ordinary operators in front of the block-operand operator
                for (hk, htxt) in [("then", "then => |a| hh(a)"), ("map", "map => |a| hh(a)"), ("and_then", "and_then => |a| hh(a)")] {
                    for nb in 1..=3usize {
                        for comma in [false, true] {
                            let mut c = 0usize;
                            let mut chain: Vec<Inst> = vec![];
                            for _ in 0..pre {
                                chain.push(mk_inst((0, false, false, 0), &mut c, true));
                            }
                            let mut last = mk_inst(t, &mut c, false);
                            let n = last.operands.len();
                            last.operands[n - 1] = blk.to_string();
                            chain.push(last);
                            let mut texts = vec![];
                            let mut brs = vec![];
                            // the block-ending branch is the LAST branch in front of the handler
                            for bi in 0..nb {
                                let init = format!("i{}", bi);
                                let (t_, s_) = if bi == nb - 1 { render_chain(&init, None, &chain, false) } else { render_chain(&init, Some(&format!("n{}", bi)), &[mk_inst((1, true, false, 0), &mut c, true)], false) };
                                texts.push(t_);
                                brs.push(s_);
                            }
                            let mut txt = texts.join(", ");
                            txt.push_str(if comma { ", " } else { " " });
                            txt.push_str(htxt);
                            acc.check(&txt, &Structure { branches: brs.clone(), handler: Some((hk.to_string(), norm("|a| hh(a)"))) }, "D:handler-after-block-operand");
                            // ... and a further branch after the handler
                            let (t2, s2) = render_chain("i9", None, &[mk_inst((0, false, false, 0), &mut c, true)], false);
                            brs.push(s2);
                            acc.check(&format!("{}, {}", txt, t2), &Structure { branches: brs, handler: Some((hk.to_string(), norm("|a| hh(a)"))) }, "D:handler-after-block-operand");
                        }
                    }
                }
            }
        }
    }
}

pub fn run(args: &[String]) {
    // args: <max chain length for part A> [parts: abcd]
    let maxlen: usize = args[0].parse().unwrap();
    let parts = args.get(1).cloned().unwrap_or_else(|| "abcd".to_string());
    let t0 = std::time::Instant::now();
    let cur = std::sync::Arc::new(std::sync::Mutex::new(vec![String::from("c14")]));
    watchdog(30, cur);
    let mut handles = vec![];
    let mut units: Vec<(char, usize)> = vec![];
    for part in parts.chars() {
        if part == 'a' {
            for w in 0..14 {
                units.push(('a', w));
            }
        } else {
            units.push((part, 0));
        }
    }
    for (part, w) in units {
        handles.push(std::thread::spawn(move || {
            let mut acc = Acc { n: 0, nviol: 0, viols: vec![], samples: vec![], excluded: 0 };
            match part {
                'a' => part_a(maxlen, &mut acc, w, 14),
                'b' => part_b(&mut acc),
                'c' => part_c(&mut acc),
                'd' => part_d(&mut acc),
                _ => {}
            }
            (part, acc)
        }));
    }
    let mut n = 0;
    let mut nviol = 0;
    let mut viols = vec![];
    let mut samples = vec![];
    let mut excluded = 0;
    let mut per_map: std::collections::BTreeMap<char, u64> = Default::default();
    for h in handles {
        let (p, a) = h.join().unwrap();
        *per_map.entry(p).or_insert(0u64) += a.n;
        n += a.n;
        nviol += a.nviol;
        viols.extend(a.viols);
        samples.extend(a.samples);
        excluded += a.excluded;
    }
    println!(
        "{{\"mode\":\"c14\",\"maxlen\":{},\"inputs\":{},\"expansions\":{},\"per_part\":{{{}}},\"operands_excluded_by_premise\":{},\"nviol\":{},\"viols\":[{}],\"samples\":[{}],\"secs\":{:.1}}}",
        maxlen,
        n,
        n,
        per_map.iter().map(|(k, v)| format!("\"{}\":{}", k, v)).collect::<Vec<_>>().join(","),
        excluded,
        nviol,
        viols.into_iter().take(12).collect::<Vec<_>>().join(","),
        samples.into_iter().take(4).collect::<Vec<_>>().join(","),
        t0.elapsed().as_secs_f64()
    );
}
