//! C10 (expansion half) — nothing is dropped from or duplicated in the expansion: every chain over the
//! operator instances up to length L, one or two branches, with/without handler, block and non-block operands,
//! every user operand a unique marker identifier: each marker occurs exactly once in the output tokens.
use crate::c14::{instances, mk_inst, render_chain, Inst, OPS};
use crate::common::*;
use proc_macro2::{TokenStream, TokenTree};
use std::collections::BTreeMap;
use std::str::FromStr;

fn count_idents(ts: TokenStream, m: &mut BTreeMap<String, usize>) {
    for tt in ts {
        match tt {
            TokenTree::Group(g) => count_idents(g.stream(), m),
            TokenTree::Ident(i) => {
                let s = i.to_string();
                if (s.starts_with('m') || s.starts_with('T') || s.starts_with("hh") || s.starts_with("ii")) && s.len() > 1 && s[1..].chars().all(|c| c.is_ascii_digit()) || s.starts_with("hh") || s.starts_with("ii") {
                    *m.entry(s).or_insert(0) += 1;
                }
            }
            _ => {}
        }
    }
}

struct Acc {
    n: u64,
    expansions: u64,
    nviol: u64,
    viols: Vec<String>,
    samples: Vec<String>,
}

fn check(input: &str, markers: &[String], cfgs: &[usize], acc: &mut Acc) {
    acc.n += 1;
    for &cfg in cfgs {
        acc.expansions += 1;
        match expand_str(input, cfg) {
            Outcome::Ok(out) => {
                let mut m = BTreeMap::new();
                count_idents(TokenStream::from_str(&out).unwrap(), &mut m);
                let bad: Vec<String> = markers.iter().filter(|k| m.get(*k).copied().unwrap_or(0) != 1).map(|k| format!("{} x{}", k, m.get(k).copied().unwrap_or(0))).collect();
                if !bad.is_empty() {
                    acc.nviol += 1;
                    if acc.viols.len() < 6 {
                        acc.viols.push(format!(
                            "{{\"input\":{},\"config\":{},\"what\":{},\"output\":{}}}",
                            jesc(input),
                            jesc(CONFIG_NAMES[cfg]),
                            jesc(&format!("user operands do not occur exactly once in the expansion: {}", bad.join(", "))),
                            jesc(&out[..out.len().min(1500)])
                        ));
                    }
                } else if acc.samples.len() < 2 && acc.n % 40009 == 3 {
                    acc.samples.push(format!("{{\"input\":{},\"config\":{},\"markers\":{}}}", jesc(input), jesc(CONFIG_NAMES[cfg]), markers.len()));
                }
            }
            // rejections / panics are C15's business
            _ => {}
        }
    }
}

fn markers_of(init: &str, insts: &[Inst]) -> Vec<String> {
    let mut v = vec![init.trim_matches(|c| c == '{' || c == '}' || c == ' ').to_string()];
    for it in insts {
        for o in &it.operands {
            // operand forms: `mK`, `{ mK }`, `|v| mK(v)`, `TK`
            let id: String = o.split(|c: char| !c.is_alphanumeric()).find(|w| (w.starts_with('m') || w.starts_with('T')) && w.len() > 1 && w[1..].chars().all(|c| c.is_ascii_digit())).unwrap_or("").to_string();
            if !id.is_empty() {
                v.push(id);
            }
        }
    }
    v
}

fn walk(maxlen: usize, worker: usize, nworkers: usize, cfgs: &[usize], acc: &mut Acc) {
    let insts = instances();
    fn rec(insts: &[(usize, bool, bool, u8)], cur: &mut Vec<(usize, bool, bool, u8)>, depth: i32, maxlen: usize, cfgs: &[usize], acc: &mut Acc) {
        // variants: operands plain / as blocks / as closures; second branch + handler
        for variant in 0..3 {
            let mut c = 0usize;
            let mut is: Vec<Inst> = cur.iter().map(|t| mk_inst(*t, &mut c, variant == 2)).collect();
            if variant == 1 {
                for it in is.iter_mut() {
                    if it.op != usize::MAX && OPS[it.op].1 != "Dot" && OPS[it.op].2 != 3 && OPS[it.op].2 != 4 {
                        for o in it.operands.iter_mut() {
                            *o = format!("{{ {} }}", o);
                        }
                    }
                }
            }
            let init = if variant == 1 { "{ m0 }" } else { "m0" };
            let (txt, _) = render_chain(init, None, &is, false);
            let mut ms = markers_of("m0", &is);
            check(&txt, &ms, cfgs, acc);
            if variant == 0 {
                // two branches + handler; second branch is deferred-heavy
                let txt2 = format!("{}, let nm = ii1 ~|> ii2 ~=> {{ ii3 }}, then => hh1", txt);
                ms.extend(["ii1", "ii2", "ii3", "hh1"].iter().map(|s| s.to_string()));
                let c2: Vec<usize> = cfgs.iter().cloned().filter(|c| !config(*c).is_try).collect();
                check(&txt2, &ms, &c2, acc);
                let txt3 = txt2.replace("then => hh1", "map => hh1");
                let c3: Vec<usize> = cfgs.iter().cloned().filter(|c| config(*c).is_try).collect();
                check(&txt3, &ms, &c3, acc);
            }
        }
        if cur.len() == maxlen {
            return;
        }
        for t in insts {
            let mut d = if t.1 { 0 } else { depth };
            if t.0 == usize::MAX {
                if d == 0 {
                    continue;
                }
                d -= 1;
            } else if t.2 {
                d += 1;
            }
            cur.push(*t);
            rec(insts, cur, d, maxlen, cfgs, acc);
            cur.pop();
        }
    }
    for (i, t) in insts.iter().enumerate() {
        if i % nworkers != worker || t.0 == usize::MAX {
            continue;
        }
        let d = if t.2 { 1 } else { 0 };
        let mut cur = vec![*t];
        rec(&insts, &mut cur, d, maxlen, cfgs, acc);
    }
}

pub fn run(args: &[String]) {
    // args: <max chain length> <configs>
    let maxlen: usize = args[0].parse().unwrap();
    let cfgs: Vec<usize> = args[1].split(',').map(|c| config_by_name(c).expect("config")).collect();
    let t0 = std::time::Instant::now();
    let cur = std::sync::Arc::new(std::sync::Mutex::new(vec![String::from("c10")]));
    watchdog(30, cur);
    let mut hs = vec![];
    for w in 0..16 {
        let cfgs = cfgs.clone();
        hs.push(std::thread::spawn(move || {
            let mut acc = Acc { n: 0, expansions: 0, nviol: 0, viols: vec![], samples: vec![] };
            walk(maxlen, w, 16, &cfgs, &mut acc);
            acc
        }));
    }
    let (mut n, mut e, mut nv) = (0, 0, 0);
    let mut viols = vec![];
    let mut samples = vec![];
    for h in hs {
        let a = h.join().unwrap();
        n += a.n;
        e += a.expansions;
        nv += a.nviol;
        viols.extend(a.viols);
        samples.extend(a.samples);
    }
    println!(
        "{{\"mode\":\"c10\",\"maxlen\":{},\"inputs\":{},\"expansions\":{},\"nviol\":{},\"viols\":[{}],\"samples\":[{}],\"secs\":{:.1}}}",
        maxlen,
        n,
        e,
        nv,
        viols.into_iter().take(10).collect::<Vec<_>>().join(","),
        samples.into_iter().take(4).collect::<Vec<_>>().join(","),
        t0.elapsed().as_secs_f64()
    );
}
