//! E1 — in-process expansion explorer: calls join_impl's public parse + generate entry points (the same two
//! calls join/src/lib.rs makes) on exhaustively enumerated inputs, 16 worker threads over a deterministic
//! partition of the index space, every call under catch_unwind, a watchdog for termination.
mod c10;
mod c14;
mod c15;
mod c20;
mod common;
mod opts;

fn main() {
    let args: Vec<String> = std::env::args().collect();
    let mode = args.get(1).map(|s| s.as_str()).unwrap_or("");
    std::panic::set_hook(Box::new(|_| {}));
    match mode {
        "c15" => c15::run(&args[2..]),
        "c14" => c14::run(&args[2..]),
        "c10" => c10::run(&args[2..]),
        "c20" => c20::run(&args[2..]),
        "opts" => opts::run(&args[2..]),
        "expand" => common::expand_cli(&args[2..]),
        _ => {
            eprintln!("usage: e1 <c15|c14|c10|c20|opts|expand> ...");
            std::process::exit(2);
        }
    }
}
