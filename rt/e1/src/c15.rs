//! C15 — totality: every sequence over the DSL symbol alphabet up to length L, in the given configs.
//! Oracle: outcome in {ok with syntactically valid output, syn error, config rejection}; a conservative
//! reference recogniser says for part of the inputs whether they are structurally valid / invalid (E1..E7).
use crate::common::*;
use std::collections::BTreeMap;
use std::sync::{Arc, Mutex};

#[derive(Clone, Copy, PartialEq, Debug)]
enum Sym {
    X,      // operand `x`
    Blk,    // block operand `{x}`
    Let,    // `let n =`
    LetTup, // `let (a, b) =`   (thorough alphabet)
    Mem,    // member operand `m()`
    Op(usize),
    Tilde,
    Wrap,   // >>>
    Unwrap, // <<<
    Comma,
    HMap,
    HThen,
    HAndThen,
    Opt(usize), // options
    /// an operand with a top-level lazy boolean operator (`x || y`)
    Bin,
}

// (token text, operand arity: 0, 1, 2 (two exprs), 9 = optional single type, 94 = optional four types, wrapper-capable, member operand)
const OPS: [(&str, u8, bool, bool); 20] = [
    ("|>", 1, true, false),
    ("=>", 1, true, false),
    ("->", 1, false, false),
    ("..", 1, false, true),
    ("^^>", 0, false, false),
    ("|n>", 0, false, false),
    ("^@", 2, false, false),
    ("=>[]", 9, false, false),
    ("<->", 94, false, false),
    ("<|", 1, false, false),
    ("??", 1, true, false),
    // thorough alphabet: the remaining operators
    ("?>", 1, true, false),
    ("<=", 1, true, false),
    ("!>", 1, true, false),
    (">@>", 1, false, false),
    ("?|>@", 1, true, false),
    ("?|>", 1, true, false),
    ("?&!>", 1, true, false),
    ("?^@", 2, false, false),
    ("?@", 1, true, false),
];
const OPTS: [&str; 4] = ["futures_crate_path(::futures)", "custom_joiner(jn)", "transpose_results(true)", "lazy_branches(false)"];

fn text(s: Sym) -> &'static str {
    match s {
        Sym::X => "x",
        Sym::Bin => "x || y",
        Sym::Blk => "{x}",
        Sym::Let => "let n =",
        Sym::LetTup => "let (a, b) =",
        Sym::Mem => "m()",
        Sym::Op(i) => OPS[i].0,
        Sym::Tilde => "~",
        Sym::Wrap => ">>>",
        Sym::Unwrap => "<<<",
        Sym::Comma => ",",
        Sym::HMap => "map => h",
        Sym::HThen => "then => h",
        Sym::HAndThen => "and_then => h",
        Sym::Opt(i) => OPTS[i],
    }
}

fn alphabet(kind: &str) -> Vec<Sym> {
    let mut a = vec![Sym::X, Sym::Blk, Sym::Let, Sym::Mem];
    let nops = if kind == "full" { 20 } else { 11 };
    for i in 0..nops {
        a.push(Sym::Op(i));
    }
    a.extend([Sym::Tilde, Sym::Wrap, Sym::Unwrap, Sym::Comma, Sym::HMap, Sym::HThen]);
    if kind == "full" {
        a.extend([Sym::HAndThen, Sym::LetTup, Sym::Bin]);
    }
    if kind == "wrap" {
        // wrapper balance over LONG sequences: one wrapper-capable operator, `~`, `>>>`, `<<<`, the comma
        a = vec![Sym::X, Sym::Op(0), Sym::Tilde, Sym::Wrap, Sym::Unwrap, Sym::Comma];
    }
    if kind == "opts" {
        a = vec![Sym::X, Sym::Op(0), Sym::Comma, Sym::HThen];
        for i in 0..4 {
            a.push(Sym::Opt(i));
        }
    }
    a
}

#[derive(Debug, PartialEq, Clone)]
enum Verdict {
    /// fits the confident grammar completely; handler kind (if any) given
    Valid { handler: Option<Sym>, premise_ok: bool, has_path_opt: bool },
    /// fits the grammar up to a structural error the property names
    Invalid(&'static str),
    Unsure,
}

fn is_operand(s: Sym) -> bool {
    matches!(s, Sym::X | Sym::Blk | Sym::Mem | Sym::Bin)
}
fn is_handler(s: Sym) -> bool {
    matches!(s, Sym::HMap | Sym::HThen | Sym::HAndThen)
}

/// The reference recogniser (DESIGN §4 C15). Conservative: anything it is not sure about is `Unsure`.
fn recognise(s: &[Sym]) -> Verdict {
    let mut pos = 0usize;
    let n = s.len();
    let mut branches = 0usize;
    let mut handler: Option<Sym> = None;
    let mut premise_ok = true;
    // options: any order, each at most once, only in front
    let mut seen_opts = [false; 4];
    while pos < n {
        if let Sym::Opt(i) = s[pos] {
            if seen_opts[i] {
                return Verdict::Invalid("E7 duplicated option");
            }
            seen_opts[i] = true;
            pos += 1;
        } else {
            break;
        }
    }
    if s[pos..].iter().any(|x| matches!(x, Sym::Opt(_))) {
        return Verdict::Unsure; // an option keyword after the options block is just an identifier operand
    }
    if pos == n {
        return Verdict::Invalid("E1 no branch");
    }
    loop {
        if pos == n {
            break;
        }
        // one item
        if is_handler(s[pos]) {
            if handler.is_some() {
                return Verdict::Invalid("second handler");
            }
            handler = Some(s[pos]);
            pos += 1;
            // `h` is parsed with syn's Expr parser: a following operator would be consumed differently -> only ',' / end are sure
            if pos == n {
                break;
            }
            if s[pos] == Sym::Comma {
                pos += 1;
                continue;
            }
            return Verdict::Unsure;
        }
        if s[pos] == Sym::Comma {
            return Verdict::Invalid("E2 empty item");
        }
        let mut last_block;
        if s[pos] == Sym::LetTup {
            // must be followed by an operand to be sure it is the let form
            if pos + 1 < n && is_operand(s[pos + 1]) {
                return Verdict::Invalid("E6 non-identifier let pattern");
            }
            return Verdict::Unsure;
        }
        if s[pos] == Sym::Let {
            pos += 1;
            if pos == n || !is_operand(s[pos]) {
                return Verdict::Unsure;
            }
            // `let n = {x}` / `let n = x`: the initial value
        }
        if pos == n || !is_operand(s[pos]) {
            return Verdict::Unsure;
        }
        last_block = s[pos] == Sym::Blk;
        pos += 1;
        branches += 1;
        let mut depth = 0i32;
        // actions
        loop {
            if pos == n {
                break;
            }
            let mut deferred = false;
            let mut p = pos;
            if s[p] == Sym::Tilde {
                deferred = true;
                p += 1;
                if p == n {
                    return Verdict::Unsure;
                }
            }
            match s[p] {
                Sym::Unwrap => {
                    if p + 1 < n && s[p + 1] == Sym::Wrap {
                        return Verdict::Invalid("E5 `<<<` combined with `>>>`");
                    }
                    if deferred {
                        depth = 0;
                    }
                    if depth == 0 {
                        return Verdict::Invalid("E3 `<<<` without a matching `>>>` in the same step");
                    }
                    depth -= 1;
                    pos = p + 1;
                    last_block = false;
                    // `<<<` takes no operand: next must be an action, ',' or end
                    if pos < n && is_operand(s[pos]) {
                        return Verdict::Invalid("E9 operand that follows an operand-less operator without a `,`");
                    }
                }
                Sym::Op(i) => {
                    let (_, arity, wrapper, member) = OPS[i];
                    if p + 1 < n && s[p + 1] == Sym::Wrap {
                        if !wrapper {
                            return Verdict::Invalid("E4 `>>>` after a non-wrapper operator");
                        }
                        if deferred {
                            depth = 0;
                        }
                        depth += 1;
                        pos = p + 2;
                        last_block = false;
                        if pos < n && (is_operand(s[pos]) || s[pos] == Sym::Let || s[pos] == Sym::LetTup) {
                            return Verdict::Unsure;
                        }
                        continue;
                    }
                    if deferred {
                        depth = 0;
                    }
                    pos = p + 1;
                    match arity {
                        0 => {
                            last_block = false;
                            if pos < n && is_operand(s[pos]) {
                                return Verdict::Invalid("E9 operand that follows an operand-less operator without a `,`");
                            }
                            if pos < n && matches!(s[pos], Sym::Let | Sym::LetTup) {
                                return Verdict::Unsure;
                            }
                        }
                        1 => {
                            // an operator that needs an operand, directly followed by the end, a `,`, another operator or `<<<`
                            if !member && (pos == n || matches!(s[pos], Sym::Comma | Sym::Op(_) | Sym::Unwrap)) && !matches!(s.get(pos), Some(Sym::Op(3))) {
                                return Verdict::Invalid("E8 operator without its operand");
                            }
                            if pos == n || !is_operand(s[pos]) {
                                return Verdict::Unsure;
                            }
                            if member && s[pos] == Sym::Blk {
                                premise_ok = false; // `.{x}` is not a member access: outside the property's premise
                            }
                            last_block = s[pos] == Sym::Blk;
                            pos += 1;
                        }
                        2 => {
                            if pos + 2 < n + 0 && is_operand(s[pos]) && s[pos + 1] == Sym::Comma && is_operand(s[pos + 2]) {
                                last_block = s[pos + 2] == Sym::Blk;
                                pos += 3;
                            } else if pos < n && is_operand(s[pos]) && (pos + 1 == n || matches!(s[pos + 1], Sym::Op(_) | Sym::Unwrap)) && !matches!(s.get(pos + 1), Some(Sym::Op(3))) {
                                // the first operand is followed by something else than the separating `,`
                                return Verdict::Invalid("E8 two-operand operator without its second operand");
                            } else if pos + 1 < n && is_operand(s[pos]) && s[pos + 1] == Sym::Comma && (pos + 2 == n || matches!(s[pos + 2], Sym::Comma | Sym::Unwrap)) {
                                return Verdict::Invalid("E8 two-operand operator without its second operand");
                            } else {
                                return Verdict::Unsure;
                            }
                        }
                        9 => {
                            // optional single type operand: `x` and `m()` are types, `{x}` is not
                            if pos < n && (s[pos] == Sym::X || s[pos] == Sym::Mem) {
                                pos += 1;
                                last_block = false;
                            } else if pos < n && (s[pos] == Sym::Blk || matches!(s[pos], Sym::Let | Sym::LetTup)) {
                                return Verdict::Unsure;
                            } else {
                                last_block = false;
                            }
                        }
                        94 => {
                            if pos < n && is_operand(s[pos]) {
                                // four types separated by commas
                                let ok = pos + 6 < n + 0
                                    && (0..4).all(|j| matches!(s[pos + 2 * j], Sym::X | Sym::Mem))
                                    && (0..3).all(|j| s[pos + 2 * j + 1] == Sym::Comma);
                                if ok {
                                    pos += 7;
                                    last_block = false;
                                } else {
                                    return Verdict::Unsure;
                                }
                            } else if pos < n && matches!(s[pos], Sym::Let | Sym::LetTup) {
                                return Verdict::Unsure;
                            } else {
                                last_block = false;
                            }
                        }
                        _ => unreachable!(),
                    }
                }
                Sym::Wrap => return Verdict::Unsure,
                _ => {
                    if deferred {
                        return Verdict::Unsure; // a `~` in front of a non-operator (§3.13)
                    }
                    break;
                }
            }
        }
        // end of branch
        if pos == n {
            break;
        }
        if s[pos] == Sym::Comma {
            pos += 1;
            continue;
        }
        if last_block && is_handler(s[pos]) {
            continue; // after a block operand the comma in front of a handler is optional (a handler keyword ends the operand)
        }
        return Verdict::Unsure;
    }
    if branches == 0 {
        return Verdict::Invalid("E1 no branch");
    }
    Verdict::Valid { handler, premise_ok, has_path_opt: seen_opts[0] }
}

/// The property's premise, textually: the operand of every member operator (all symbols up to the next operator,
/// ignoring `~`, which the parser drops in front of non-operators) is exactly one field / method-call operand.
fn member_premise(seq: &[Sym]) -> bool {
    for i in 0..seq.len() {
        if !matches!(seq[i], Sym::Op(3)) {
            continue;
        }
        let mut operand: Vec<Sym> = vec![];
        let mut j = i + 1;
        while j < seq.len() {
            match seq[j] {
                Sym::Op(_) | Sym::Wrap | Sym::Unwrap | Sym::Comma | Sym::HMap | Sym::HThen | Sym::HAndThen => break,
                Sym::Tilde => {}
                x => operand.push(x),
            }
            j += 1;
        }
        if !(operand.len() == 1 && matches!(operand[0], Sym::X | Sym::Mem)) {
            return false;
        }
    }
    true
}

fn render(seq: &[Sym]) -> String {
    seq.iter().map(|s| text(*s)).collect::<Vec<_>>().join(" ")
}

pub fn run(args: &[String]) {
    // args: <alphabet: std|full|opts> <max len> <configs comma separated> [threads]   |   lets <configs>
    if args[0] == "lets" {
        return run_lets(&args[1..]);
    }
    if args[0] == "mid" {
        return run_mid(&args[1..]);
    }
    if args[0] == "sizes" {
        return run_sizes(&args[1..]);
    }
    let kind = args[0].clone();
    let maxlen: usize = args[1].parse().unwrap();
    let cfgs: Vec<usize> = args[2].split(',').map(|c| config_by_name(c).expect("config")).collect();
    let threads: usize = args.get(3).and_then(|s| s.parse().ok()).unwrap_or(16);
    let alpha = alphabet(&kind);
    let a = alpha.len() as u64;
    // index space: all sequences of length 0..=maxlen
    let mut total: u64 = 0;
    let mut offs = vec![];
    for l in 0..=maxlen {
        offs.push(total);
        total += a.pow(l as u32);
    }
    let current = Arc::new(Mutex::new(vec![String::new(); threads]));
    watchdog(20, current.clone());
    let t0 = std::time::Instant::now();
    let mut handles = vec![];
    for w in 0..threads {
        let alpha = alpha.clone();
        let offs = offs.clone();
        let cfgs = cfgs.clone();
        let current = current.clone();
        handles.push(std::thread::spawn(move || {
            let mut classes: BTreeMap<(usize, &'static str, &'static str), u64> = BTreeMap::new();
            let mut viol: Vec<String> = vec![];
            let mut nviol = 0u64;
            let mut n = 0u64;
            let mut samples: Vec<String> = vec![];
            let mut idx = w as u64;
            let mut seq: Vec<Sym> = Vec::with_capacity(maxlen);
            while idx < total {
                // decode idx
                let l = (0..=maxlen).rev().find(|&l| offs[l] <= idx).unwrap();
                let mut r = idx - offs[l];
                seq.clear();
                for _ in 0..l {
                    seq.push(alpha[(r % a) as usize]);
                    r /= a;
                }
                let txt = render(&seq);
                if idx % 4096 == w as u64 {
                    current.lock().unwrap()[w] = txt.clone();
                }
                let verdict = recognise(&seq);
                for &cfg in &cfgs {
                    let out = expand_str(&txt, cfg);
                    n += 1;
                    let vclass = match &verdict {
                        Verdict::Valid { .. } => "valid",
                        Verdict::Invalid(_) => "invalid",
                        Verdict::Unsure => "unsure",
                    };
                    *classes.entry((cfg, vclass, out.class())).or_insert(0) += 1;
                    let mut bad: Option<String> = None;
                    match &out {
                        Outcome::LexError => bad = Some("MACHINERY: input does not lex".into()),
                        Outcome::InvalidOutput(_) | Outcome::Panic(_) => {
                            let premise = match &verdict {
                                Verdict::Valid { premise_ok, .. } => *premise_ok,
                                // unsure inputs: apply the premise check textually: a member operator directly followed by a block
                                // unsure inputs: the premise textually — every member operator is followed by a field / method-call operand
                                _ => member_premise(&seq),
                            };
                            if premise {
                                bad = Some(match &out {
                                    Outcome::Panic(m) => format!("internal panic instead of a diagnostic: {}", m),
                                    Outcome::InvalidOutput(o) => format!("accepted but the output is not a syntactically valid expression: {}", &o[..o.len().min(300)]),
                                    _ => unreachable!(),
                                });
                            }
                        }
                        _ => {}
                    }
                    if bad.is_none() {
                        match &verdict {
                            Verdict::Invalid(why) => {
                                if !out.is_rejection() {
                                    bad = Some(format!("structurally invalid input ({}) was accepted silently", why));
                                }
                            }
                            Verdict::Valid { handler, premise_ok, has_path_opt } => {
                                let c = config(cfg);
                                let wrong_handler = match handler {
                                    Some(Sym::HThen) => c.is_try,
                                    Some(Sym::HMap) | Some(Sym::HAndThen) => !c.is_try,
                                    _ => false,
                                };
                                let wrong_opt = *has_path_opt && !c.is_async;
                                if wrong_handler || wrong_opt {
                                    if !out.is_rejection() {
                                        bad = Some("a handler of the wrong kind / an option that does not apply was accepted".into());
                                    }
                                } else if *premise_ok && !matches!(out, Outcome::Ok(_)) {
                                    bad = Some(format!("structurally valid input was not expanded: {:?}", out));
                                }
                            }
                            Verdict::Unsure => {}
                        }
                    }
                    if let Some(b) = bad {
                        nviol += 1;
                        if viol.len() < 5 {
                            viol.push(format!("{{\"input\":{},\"config\":{},\"what\":{},\"outcome\":{}}}", jesc(&txt), jesc(CONFIG_NAMES[cfg]), jesc(&b), jesc(out.class())));
                        }
                    }
                    if samples.len() < 2 && l == maxlen && matches!(out, Outcome::Ok(_)) && w < 3 {
                        samples.push(format!("{{\"input\":{},\"config\":{},\"outcome\":\"ok\"}}", jesc(&txt), jesc(CONFIG_NAMES[cfg])));
                    }
                }
                idx += threads as u64;
            }
            (classes, viol, nviol, n, samples)
        }));
    }
    let mut classes: BTreeMap<(usize, &'static str, &'static str), u64> = BTreeMap::new();
    let mut viol = vec![];
    let mut nviol = 0;
    let mut n = 0;
    let mut samples = vec![];
    for h in handles {
        let (c, v, nv, nn, s) = h.join().unwrap();
        for (k, x) in c {
            *classes.entry(k).or_insert(0) += x;
        }
        viol.extend(v);
        nviol += nv;
        n += nn;
        samples.extend(s);
    }
    let cls: Vec<String> = classes.iter().map(|((c, v, o), x)| format!("{{\"config\":{},\"recogniser\":{},\"outcome\":{},\"n\":{}}}", jesc(CONFIG_NAMES[*c]), jesc(v), jesc(o), x)).collect();
    println!(
        "{{\"mode\":\"c15\",\"alphabet\":{},\"symbols\":{},\"maxlen\":{},\"sequences\":{},\"expansions\":{},\"nviol\":{},\"viols\":[{}],\"classes\":[{}],\"samples\":[{}],\"secs\":{:.1}}}",
        jesc(&kind),
        alpha.len(),
        maxlen,
        total,
        n,
        nviol,
        viol.into_iter().take(10).collect::<Vec<_>>().join(","),
        cls.join(","),
        samples.into_iter().take(4).collect::<Vec<_>>().join(","),
        t0.elapsed().as_secs_f64()
    );
}

/// `c15 lets`: depth profiles x every assignment of a `let` form (none, `let n`, `let mut n`, `let ref n`) to the branches x
/// with/without handler, in the given configs: the output must be a syntactically valid expression (never a panic).
/// Every operator (plain, `~`-deferred, as wrapper opener, and `<<<`) written between an operand of a multi-operand operator
/// (`^@ init, f`, `?^@ init, f`, `<-> A, B, C, D`) and the `,` that separates it from the next operand: the operator has no operand of
/// its own there, so the input is structurally invalid and must be REJECTED (never accepted with the operator silently dropped).
pub fn run_mid(args: &[String]) {
    let cfgs: Vec<usize> = args[0].split(',').map(|c| config_by_name(c).expect("config")).collect();
    let t0 = std::time::Instant::now();
    let bases = ["x ^@ x {} , x", "x ?^@ x {} , x", "x <-> x {} , x , x , x", "x <-> x , x {} , x , x", "x <-> x , x , x {} , x", "x |> >>> ^@ x {} , x <<< |> x"];
    let tails = ["", " |> x", " , x", " ~=> x"];
    let mut ins: Vec<String> = vec!["<<<".to_string(), "~ <<<".to_string()];
    for (op, _, wrapper, _) in OPS.iter() {
        ins.push(op.to_string());
        ins.push(format!("~ {}", op));
        if *wrapper {
            ins.push(format!("{} >>>", op));
        }
    }
    let (mut n, mut nviol) = (0u64, 0u64);
    let mut viols: Vec<String> = vec![];
    let mut samples: Vec<String> = vec![];
    // control: the same inputs WITHOUT the inserted operator are accepted (the bases are well formed)
    for base in bases.iter() {
        for &cfg in &cfgs {
            let txt = base.replace("{} ", "");
            n += 1;
            if !matches!(expand_str(&txt, cfg), Outcome::Ok(_)) {
                nviol += 1;
                viols.push(format!("{{\"input\":{},\"config\":{},\"what\":\"MACHINERY: control input (no inserted operator) is not accepted\",\"outcome\":\"\"}}", jesc(&txt), jesc(CONFIG_NAMES[cfg])));
            }
        }
    }
    for base in bases.iter() {
        for i in ins.iter() {
            for tail in tails.iter() {
                for &cfg in &cfgs {
                    let txt = format!("{}{}", base.replace("{}", i), tail);
                    let out = expand_str(&txt, cfg);
                    n += 1;
                    let bad = match &out {
                        Outcome::Ok(_) => Some("structurally invalid input (an operator without operand between the operands of a multi-operand operator) was accepted silently".to_string()),
                        Outcome::InvalidOutput(o) => Some(format!("accepted and the output is not a syntactically valid expression: {}", &o[..o.len().min(200)])),
                        Outcome::Panic(m) => Some(format!("internal panic instead of a diagnostic: {}", m)),
                        _ => None,
                    };
                    if let Some(b) = bad {
                        nviol += 1;
                        if viols.len() < 8 {
                            viols.push(format!("{{\"input\":{},\"config\":{},\"what\":{},\"outcome\":{}}}", jesc(&txt), jesc(CONFIG_NAMES[cfg]), jesc(&b), jesc(out.class())));
                        }
                    } else if samples.len() < 2 && n % 977 == 7 {
                        samples.push(format!("{{\"input\":{},\"config\":{}}}", jesc(&txt), jesc(CONFIG_NAMES[cfg])));
                    }
                }
            }
        }
    }
    println!(
        "{{\"mode\":\"c15mid\",\"sequences\":{},\"expansions\":{},\"nviol\":{},\"viols\":[{}],\"classes\":[],\"samples\":[{}],\"secs\":{:.1}}}",
        n, n, nviol, viols.join(","), samples.join(","), t0.elapsed().as_secs_f64()
    );
}

pub fn run_lets(args: &[String]) {
    let all: Vec<usize> = args[0].split(',').map(|c| config_by_name(c).expect("config")).collect();
    if all.len() > 1 {
        // one worker per config
        let t0 = std::time::Instant::now();
        let hs: Vec<_> = all.iter().map(|c| { let c = *c; std::thread::spawn(move || lets_worker(vec![c])) }).collect();
        let (mut n, mut nviol, mut viols, mut samples) = (0u64, 0u64, vec![], vec![]);
        for h in hs {
            let (a, b, c, d) = h.join().unwrap();
            n += a;
            nviol += b;
            viols.extend(c);
            samples.extend(d);
        }
        println!(
            "{{\"mode\":\"c15lets\",\"sequences\":{},\"expansions\":{},\"nviol\":{},\"viols\":[{}],\"classes\":[],\"samples\":[{}],\"secs\":{:.1}}}",
            n, n, nviol, viols.into_iter().take(8).collect::<Vec<_>>().join(","), samples.into_iter().take(3).collect::<Vec<_>>().join(","), t0.elapsed().as_secs_f64()
        );
        return;
    }
    let t0 = std::time::Instant::now();
    let (n, nviol, viols, samples) = lets_worker(all);
    println!(
        "{{\"mode\":\"c15lets\",\"sequences\":{},\"expansions\":{},\"nviol\":{},\"viols\":[{}],\"classes\":[],\"samples\":[{}],\"secs\":{:.1}}}",
        n, n, nviol, viols.join(","), samples.join(","), t0.elapsed().as_secs_f64()
    );
}

fn lets_worker(cfgs: Vec<usize>) -> (u64, u64, Vec<String>, Vec<String>) {
    // raw identifiers (`r#type`) are identifiers: the branch name of a `let` may be one
    let forms = ["", "let n{} = ", "let mut n{} = ", "let ref n{} = ", "let r#RAW{} = ", "let mut r#RAW{} = "];
    let raws = ["type", "match", "loop"];
    let mut n = 0u64;
    let mut nviol = 0u64;
    let mut viols: Vec<String> = vec![];
    let mut samples: Vec<String> = vec![];
    for nb in 1..=3usize {
        let mut depths = vec![1usize; nb];
        loop {
            for assign in 0..(6usize.pow(nb as u32)) {
                for handler in [false, true] {
                    let mut parts = vec![];
                    for b in 0..nb {
                        let f = forms[(assign / 6usize.pow(b as u32)) % 6].replace("RAW{}", raws[b % 3]).replace("{}", &b.to_string());
                        let mut s = format!("{}x{}", f, b);
                        for k in 1..depths[b] {
                            s.push_str(&format!(" ~|> f{}_{} ~=> {{ g{}_{} }}", b, k, b, k));
                        }
                        parts.push(s);
                    }
                    for &cfg in &cfgs {
                        let mut p2 = parts.clone();
                        if handler {
                            p2.push(if config(cfg).is_try { "map => h".to_string() } else { "then => h".to_string() });
                        }
                        let txt = p2.join(", ");
                        let out = expand_str(&txt, cfg);
                        n += 1;
                        let bad = match &out {
                            Outcome::Ok(_) => None,
                            Outcome::InvalidOutput(o) => Some(format!("accepted but the output is not a syntactically valid expression: {}", &o[..o.len().min(300)])),
                            Outcome::Panic(m) => Some(format!("internal panic instead of a diagnostic: {}", m)),
                            o => Some(format!("structurally valid input was not expanded: {:?}", o.class())),
                        };
                        if let Some(b) = bad {
                            nviol += 1;
                            if viols.len() < 6 {
                                viols.push(format!("{{\"input\":{},\"config\":{},\"what\":{},\"outcome\":{}}}", jesc(&txt), jesc(CONFIG_NAMES[cfg]), jesc(&b), jesc(out.class())));
                            }
                        } else if samples.len() < 2 && n % 5003 == 7 {
                            samples.push(format!("{{\"input\":{},\"config\":{}}}", jesc(&txt), jesc(CONFIG_NAMES[cfg])));
                        }
                    }
                }
            }
            // next depth profile (each depth 1..=3)
            let mut i = 0;
            while i < nb {
                if depths[i] < 3 {
                    depths[i] += 1;
                    break;
                }
                depths[i] = 1;
                i += 1;
            }
            if i == nb {
                break;
            }
        }
    }
    (n, nviol, viols, samples)
}


/// `c15 sizes`: (a) wide and deep programs — 1..=40 branches and 1..=40 steps, plain / with block captures / with let names and a
/// handler — expand to a valid expression in every config (no size threshold panics); (b) stray punctuation that cannot start an
/// expression directly after an operator that needs an operand (`a |> >> x`, `a => = x`, ..) is REJECTED, never accepted with the
/// stray tokens dropped.
pub fn run_sizes(args: &[String]) {
    let all: Vec<usize> = args[0].split(',').map(|c| config_by_name(c).expect("config")).collect();
    let t0 = std::time::Instant::now();
    // one worker per config
    // (deep programs recurse deeply in syn and in the generator: the workers get the stack a rustc thread has)
    let hs: Vec<_> = all.iter().map(|c| { let c = *c; std::thread::Builder::new().stack_size(512 << 20).spawn(move || sizes_worker(vec![c])).unwrap() }).collect();
    let (mut n, mut nviol, mut viols, mut samples) = (0u64, 0u64, vec![], vec![]);
    for h in hs {
        let (a, b, c, d) = h.join().unwrap();
        n += a;
        nviol += b;
        viols.extend(c);
        samples.extend(d);
    }
    println!(
        "{{\"mode\":\"c15sizes\",\"sequences\":{},\"expansions\":{},\"nviol\":{},\"viols\":[{}],\"classes\":[],\"samples\":[{}],\"secs\":{:.1}}}",
        n, n, nviol, viols.into_iter().take(10).collect::<Vec<_>>().join(","), samples.into_iter().take(2).collect::<Vec<_>>().join(","), t0.elapsed().as_secs_f64()
    );
}

fn sizes_worker(cfgs: Vec<usize>) -> (u64, u64, Vec<String>, Vec<String>) {
    let (mut n, mut nviol) = (0u64, 0u64);
    let mut viols: Vec<String> = vec![];
    let mut samples: Vec<String> = vec![];
    let mut valid_inputs: Vec<String> = vec![];
    let widths: Vec<usize> = (1..=40usize).chain([63, 64, 65, 66, 127, 128, 129, 130, 255, 256, 257]).collect();
    for nb in widths {
        for form in 0..3 {
            let parts: Vec<String> = (0..nb)
                .map(|b| match form {
                    0 => format!("x{} |> f{}", b, b),
                    1 => format!("x{} |> {{ g{} }} ~=> {{ h{} }}", b, b, b),
                    _ => format!("let n{} = x{} ~|> f{}", b, b, b),
                })
                .collect();
            valid_inputs.push(parts.join(", "));
        }
    }
    let depths: Vec<usize> = (1..=40usize).chain([63, 64, 65, 66, 127, 128, 129]).collect();
    for d in depths {
        let mut one = String::from("x");
        for k in 1..d {
            one.push_str(&format!(" ~|> f{} ?? {{ q{} }}", k, k));
        }
        valid_inputs.push(one.clone());
        valid_inputs.push(format!("{}, y ~=> g", one));
        valid_inputs.push(format!("y, {}, z ~-> k", one));
    }
    for txt in valid_inputs.iter() {
        for &cfg in &cfgs {
            for handler in [false, true] {
                let t = if handler { format!("{}, {} => hh", txt, if config(cfg).is_try { "map" } else { "then" }) } else { txt.clone() };
                n += 1;
                let bad = match expand_str(&t, cfg) {
                    Outcome::Ok(_) => None,
                    Outcome::InvalidOutput(o) => Some(format!("accepted but the output is not a syntactically valid expression: {}", &o[..o.len().min(200)])),
                    Outcome::Panic(m) => Some(format!("internal panic instead of an expansion: {}", m)),
                    o => Some(format!("structurally valid input was not expanded: {:?}", o.class())),
                };
                if let Some(b) = bad {
                    nviol += 1;
                    if viols.len() < 6 {
                        viols.push(format!("{{\"input\":{},\"config\":{},\"what\":{},\"outcome\":\"\"}}", jesc(&t[..t.len().min(400)]), jesc(CONFIG_NAMES[cfg]), jesc(&b)));
                    }
                }
            }
        }
    }
    let stray = [">", ">>", ">=", ">>=", "=", "==", "+=", "/", "/=", "%", "%=", "^", "^="];
    let follow = ["x", "(1, 2)", "{x}", "[x]", "= x", "> x"];
    for (op, arity, wrapper, _) in OPS.iter() {
        if *arity == 0 || *arity == 9 || *arity == 94 {
            continue;
        }
        let mut heads = vec![format!("a {}", op), format!("a ~ {}", op)];
        if *wrapper {
            heads.push(format!("a {} >>> {}", op, op));
        }
        for h in heads.iter() {
            for p in stray.iter() {
                for f in follow.iter() {
                    for ctx in 0..3 {
                        let core = format!("{} {} {} |> f", h, p, f);
                        let txt = match ctx {
                            0 => core,
                            1 => format!("b |> g, {}", core),
                            _ => format!("{}, c", core),
                        };
                        for &cfg in &cfgs {
                            n += 1;
                            let bad = match expand_str(&txt, cfg) {
                                Outcome::Ok(_) => Some("structurally invalid input (punctuation that cannot start an operand directly after an operator) was accepted silently".to_string()),
                                Outcome::InvalidOutput(o) => Some(format!("accepted and the output is not a syntactically valid expression: {}", &o[..o.len().min(200)])),
                                Outcome::Panic(m) => Some(format!("internal panic instead of a diagnostic: {}", m)),
                                _ => None,
                            };
                            if let Some(b) = bad {
                                nviol += 1;
                                if viols.len() < 10 {
                                    viols.push(format!("{{\"input\":{},\"config\":{},\"what\":{},\"outcome\":\"\"}}", jesc(&txt), jesc(CONFIG_NAMES[cfg]), jesc(&b)));
                                }
                            } else if samples.len() < 2 {
                                samples.push(format!("{{\"input\":{},\"rejected\":true}}", jesc(&txt)));
                            }
                        }
                    }
                }
            }
        }
    }
    (n, nviol, viols, samples)
}
