pub fn run(_args: &[String]) { println!("{{}}"); }
