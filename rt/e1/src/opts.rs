//! Parse-level halves of C13 (handler legality) and C16 (option subsets / orders / duplicates).
use crate::common::*;
use join_impl::JoinInputDefault;
use proc_macro2::TokenStream;
use quote::ToTokens;
use std::str::FromStr;

fn squeeze(s: String) -> String {
    s.chars().filter(|c| !c.is_whitespace()).collect()
}

pub fn run(args: &[String]) {
    match args[0].as_str() {
        "handlers" => handlers(),
        "options" => options(),
        _ => std::process::exit(2),
    }
}

fn handlers() {
    let t0 = std::time::Instant::now();
    let kinds = ["map", "and_then", "then"];
    let mut n = 0u64;
    let mut nviol = 0u64;
    let mut viols: Vec<String> = vec![];
    let mut samples: Vec<String> = vec![];
    for cfg in 0..8 {
        let c = config(cfg);
        for nb in 1..=3usize {
            let branches: Vec<String> = (0..nb).map(|i| format!("b{} |> f{} ~=> g{}", i, i, i)).collect();
            for (ki, k) in kinds.iter().enumerate() {
                for pos in 0..=nb {
                    // single handler
                    let mut parts = branches.clone();
                    parts.insert(pos, format!("{} => h", k));
                    let legal = if c.is_try { *k != "then" } else { *k == "then" };
                    for trailing in ["", ","] {
                        let txt = format!("{}{}", parts.join(", "), trailing);
                        let out = expand_str(&txt, cfg);
                        n += 1;
                        let bad = match (&out, legal) {
                            (Outcome::Ok(_), true) => None,
                            (o, false) if o.is_rejection() => None,
                            (Outcome::Ok(_), false) => Some(format!("`{}` handler is not legal for this macro but was accepted", k)),
                            (o, true) => Some(format!("legal `{}` handler was not accepted: {:?}", k, o)),
                            (o, false) => Some(format!("illegal handler was neither accepted nor rejected with a message: {:?}", o)),
                        };
                        if let Some(b) = bad {
                            nviol += 1;
                            if viols.len() < 8 {
                                viols.push(format!("{{\"input\":{},\"config\":{},\"what\":{}}}", jesc(&txt), jesc(CONFIG_NAMES[cfg]), jesc(&b)));
                            }
                        } else if samples.len() < 3 && n % 37 == 5 {
                            samples.push(format!("{{\"input\":{},\"config\":{},\"outcome\":{}}}", jesc(&txt), jesc(CONFIG_NAMES[cfg]), jesc(out.class())));
                        }
                    }
                    // a second handler (same or different kind) at every position: always rejected
                    for (k2i, k2) in kinds.iter().enumerate() {
                        let _ = (ki, k2i);
                        for pos2 in 0..=nb + 1 {
                            let mut parts2 = parts.clone();
                            parts2.insert(pos2, format!("{} => h2", k2));
                            let txt = parts2.join(", ");
                            let out = expand_str(&txt, cfg);
                            n += 1;
                            if !out.is_rejection() {
                                nviol += 1;
                                if viols.len() < 8 {
                                    viols.push(format!("{{\"input\":{},\"config\":{},\"what\":{}}}", jesc(&txt), jesc(CONFIG_NAMES[cfg]), jesc(&format!("a second handler was not rejected with a message: {}", out.class()))));
                                }
                            }
                        }
                    }
                }
            }
        }
    }
    println!(
        "{{\"mode\":\"handlers\",\"inputs\":{},\"expansions\":{},\"nviol\":{},\"viols\":[{}],\"samples\":[{}],\"secs\":{:.1}}}",
        n,
        n,
        nviol,
        viols.join(","),
        samples.join(","),
        t0.elapsed().as_secs_f64()
    );
}

fn options() {
    let t0 = std::time::Instant::now();
    // option id -> renderings with two different values
    let render = |id: usize, alt: bool| -> String {
        match id {
            0 => if alt { "futures_crate_path(::my::fut)".into() } else { "futures_crate_path(::futures)".into() },
            1 => if alt { "custom_joiner(my::joiner!)".into() } else { "custom_joiner(jn)".into() },
            2 => format!("transpose_results({})", alt),
            _ => format!("lazy_branches({})", alt),
        }
    };
    let mut n = 0u64;
    let mut nviol = 0u64;
    let mut viols: Vec<String> = vec![];
    let mut samples: Vec<String> = vec![];
    let mut selections = 0u64;
    // every ordered duplicate-free selection (incl. empty) ...
    let mut sels: Vec<Vec<usize>> = vec![vec![]];
    fn perms(cur: &mut Vec<usize>, out: &mut Vec<Vec<usize>>) {
        for i in 0..4 {
            if !cur.contains(&i) {
                cur.push(i);
                out.push(cur.clone());
                perms(cur, out);
                cur.pop();
            }
        }
    }
    let mut cur = vec![];
    perms(&mut cur, &mut sels);
    // ... and every selection with one duplicate inserted at every position
    let mut dups: Vec<Vec<usize>> = vec![];
    for s in &sels {
        for &d in s.iter() {
            for pos in 0..=s.len() {
                let mut x = s.clone();
                x.insert(pos, d);
                dups.push(x);
            }
        }
    }
    for (dup, list) in [(false, &sels), (true, &dups)] {
        for s in list.iter() {
            selections += 1;
            for alt in [false, true] {
                for cfg in [0usize, 1, 3, 4, 5, 7] {
                    let c = config(cfg);
                    let txt = format!("{} a |> f, b ~=> g", s.iter().map(|i| render(*i, alt)).collect::<Vec<_>>().join(" "));
                    n += 1;
                    let ts = TokenStream::from_str(&txt).unwrap();
                    let parsed = std::panic::catch_unwind(std::panic::AssertUnwindSafe(|| syn::parse2::<JoinInputDefault>(ts)));
                    let mut bad: Option<String> = None;
                    match parsed {
                        Err(_) => bad = Some("parser panicked".into()),
                        Ok(Err(e)) => {
                            if !dup {
                                bad = Some(format!("duplicate-free option selection was rejected: {}", e));
                            }
                        }
                        Ok(Ok(j)) => {
                            if dup {
                                bad = Some("an option given twice was accepted".into());
                            } else {
                                // parsed fields must equal the rendered ones
                                let want_path = if s.contains(&0) { Some(squeeze(if alt { "::my::fut".into() } else { "::futures".into() })) } else { None };
                                let got_path = j.futures_crate_path.as_ref().map(|p| squeeze(p.to_token_stream().to_string()));
                                let want_j = if s.contains(&1) { Some(squeeze(if alt { "my::joiner!".into() } else { "jn".into() })) } else { None };
                                let got_j = j.custom_joiner.as_ref().map(|p| squeeze(p.to_string()));
                                let want_t = if s.contains(&2) { Some(alt) } else { None };
                                let want_l = if s.contains(&3) { Some(alt) } else { None };
                                if got_path != want_path || got_j != want_j || j.transpose_results != want_t || j.lazy_branches != want_l || j.branches.len() != 2 {
                                    bad = Some(format!(
                                        "parsed options differ from the written ones: path {:?}/{:?} joiner {:?}/{:?} transpose {:?}/{:?} lazy {:?}/{:?} branches {}",
                                        got_path, want_path, got_j, want_j, j.transpose_results, want_t, j.lazy_branches, want_l, j.branches.len()
                                    ));
                                } else {
                                    // generation: futures_crate_path only applies to async macros
                                    let out = expand_str(&txt, cfg);
                                    let path_misuse = s.contains(&0) && !c.is_async;
                                    match (&out, path_misuse) {
                                        (Outcome::Ok(o), false) => {
                                            if s.contains(&0) && alt && (!o.contains(":: my :: fut") || o.contains(":: futures ::")) {
                                                bad = Some("futures items do not all come from the given futures_crate_path".into());
                                            }
                                            if s.contains(&1) && !squeeze(o.clone()).contains(&squeeze(if alt { "my::joiner!".into() } else { "jn(".into() })) {
                                                bad = Some("the custom joiner is not used in the expansion".into());
                                            }
                                        }
                                        (o, true) if o.is_rejection() => {}
                                        (o, _) => bad = Some(format!("unexpected generation outcome {:?}", o.class())),
                                    }
                                }
                            }
                        }
                    }
                    if let Some(b) = bad {
                        nviol += 1;
                        if viols.len() < 8 {
                            viols.push(format!("{{\"input\":{},\"config\":{},\"what\":{}}}", jesc(&txt), jesc(CONFIG_NAMES[cfg]), jesc(&b)));
                        }
                    } else if samples.len() < 3 && n % 997 == 11 {
                        samples.push(format!("{{\"input\":{},\"config\":{}}}", jesc(&txt), jesc(CONFIG_NAMES[cfg])));
                    }
                }
            }
        }
    }
    println!(
        "{{\"mode\":\"options\",\"selections\":{},\"inputs\":{},\"expansions\":{},\"nviol\":{},\"viols\":[{}],\"samples\":[{}],\"secs\":{:.1}}}",
        selections,
        n,
        n,
        nviol,
        viols.join(","),
        samples.join(","),
        t0.elapsed().as_secs_f64()
    );
}
