use join_impl::{generate_join, Config, JoinInputDefault};
use proc_macro2::TokenStream;
use std::panic::{catch_unwind, AssertUnwindSafe};
use std::str::FromStr;
use std::sync::atomic::{AtomicU64, Ordering::SeqCst};

pub const CONFIG_NAMES: [&str; 8] = ["join", "try_join", "join_spawn", "try_join_spawn", "join_async", "try_join_async", "join_async_spawn", "try_join_async_spawn"];

pub fn config(i: usize) -> Config {
    Config { is_try: i & 1 == 1, is_spawn: (i >> 1) & 1 == 1, is_async: (i >> 2) & 1 == 1 }
}
pub fn config_by_name(n: &str) -> Option<usize> {
    let n = match n {
        "spawn" => "join_spawn",
        "try_spawn" => "try_join_spawn",
        "async_spawn" => "join_async_spawn",
        "try_async_spawn" => "try_join_async_spawn",
        x => x,
    };
    CONFIG_NAMES.iter().position(|c| *c == n)
}

#[derive(Debug, Clone, PartialEq)]
pub enum Outcome {
    /// output parses as a syn::Expr
    Ok(String),
    /// expansion returned tokens that are not a Rust expression
    InvalidOutput(String),
    /// the input does not lex as a token stream (harness rendering problem)
    LexError,
    /// regular diagnostic from the parser
    SynError(String),
    /// one of the documented configuration rejections surfacing through generate_join's unwrap
    ConfigRejection(String),
    /// any other panic
    Panic(String),
}
impl Outcome {
    pub fn class(&self) -> &'static str {
        match self {
            Outcome::Ok(_) => "ok",
            Outcome::InvalidOutput(_) => "invalid_output",
            Outcome::LexError => "lex_error",
            Outcome::SynError(_) => "syn_error",
            Outcome::ConfigRejection(_) => "config_rejection",
            Outcome::Panic(_) => "panic",
        }
    }
    pub fn is_rejection(&self) -> bool {
        matches!(self, Outcome::SynError(_) | Outcome::ConfigRejection(_))
    }
}

// the three configuration rejections that the unchanged generator reports through generate_join's unwrap (DESIGN §3); "no branch" is
// NOT one of them: the parser rejects it with a regular diagnostic, so reaching the generator's own zero-branch guard is a panic
const REJECTIONS: [&str; 3] = [
    "`and_then` or `map` handler should be only provided for `try` `join!`",
    "`then` handler should be only provided for `join!` but not for `try` `join!`",
    "futures_crate_path should be only provided for `async` `join!`",
];

pub static PROGRESS: AtomicU64 = AtomicU64::new(0);

fn msg_of(p: Box<dyn std::any::Any + Send>) -> String {
    if let Some(s) = p.downcast_ref::<&str>() {
        s.to_string()
    } else if let Some(s) = p.downcast_ref::<String>() {
        s.clone()
    } else {
        "<non-string panic>".into()
    }
}

/// parse + generate exactly as join/src/lib.rs does, classified
pub fn expand_tokens(ts: TokenStream, cfg: usize) -> Outcome {
    PROGRESS.fetch_add(1, SeqCst);
    let parsed = match catch_unwind(AssertUnwindSafe(|| syn::parse2::<JoinInputDefault>(ts))) {
        Ok(Ok(p)) => p,
        Ok(Err(e)) => return Outcome::SynError(e.to_string()),
        Err(p) => return Outcome::Panic(format!("in parser: {}", msg_of(p))),
    };
    match catch_unwind(AssertUnwindSafe(|| generate_join(&parsed, config(cfg)))) {
        Ok(out) => {
            let s = out.to_string();
            match syn::parse2::<syn::Expr>(out) {
                Ok(_) => Outcome::Ok(s),
                Err(_) => Outcome::InvalidOutput(s),
            }
        }
        Err(p) => {
            let m = msg_of(p);
            if REJECTIONS.iter().any(|r| m.contains(r)) {
                Outcome::ConfigRejection(m)
            } else {
                Outcome::Panic(m)
            }
        }
    }
}
pub fn expand_str(s: &str, cfg: usize) -> Outcome {
    match TokenStream::from_str(s) {
        Ok(ts) => expand_tokens(ts, cfg),
        Err(_) => Outcome::LexError,
    }
}

pub fn jesc(s: &str) -> String {
    let mut o = String::with_capacity(s.len() + 2);
    o.push('"');
    for c in s.chars() {
        match c {
            '"' => o.push_str("\\\""),
            '\\' => o.push_str("\\\\"),
            '\n' => o.push_str("\\n"),
            '\t' => o.push_str("\\t"),
            '\r' => o.push_str("\\r"),
            c if (c as u32) < 0x20 => o.push_str(&format!("\\u{:04x}", c as u32)),
            c => o.push(c),
        }
    }
    o.push('"');
    o
}

/// `e1 expand <config name> <file>`: prints the expansion of the macro body in <file> (used for text-level conformance)
pub fn expand_cli(args: &[String]) {
    let cfg = config_by_name(&args[0]).expect("config");
    let body = std::fs::read_to_string(&args[1]).expect("read");
    match expand_str(&body, cfg) {
        Outcome::Ok(s) => println!("{}", s),
        o => {
            println!("NOT-OK {:?}", o);
            std::process::exit(1)
        }
    }
}

/// Spawns a watchdog that aborts the process with a message when no expansion finishes for `secs` seconds.
pub fn watchdog(secs: u64, current: std::sync::Arc<std::sync::Mutex<Vec<String>>>) {
    std::thread::spawn(move || {
        let mut last = PROGRESS.load(SeqCst);
        let mut idle = 0;
        loop {
            std::thread::sleep(std::time::Duration::from_secs(1));
            let now = PROGRESS.load(SeqCst);
            if now == last {
                idle += 1;
            } else {
                idle = 0;
                last = now;
            }
            if idle >= secs {
                let cur = current.lock().unwrap().clone();
                println!("{{\"hang\":true,\"inputs\":[{}]}}", cur.iter().map(|s| jesc(s)).collect::<Vec<_>>().join(","));
                std::process::exit(3);
            }
        }
    });
}
