//! Runtime support shared by every generated harness: event log, run-time input table,
//! kind-directed helper traits, move-only drop-counting token, counting allocator and
//! the differential driver (reference `r()` vs macro `m()` on every input row).
use std::any::Any;
use std::fmt::Debug;
use std::panic::{catch_unwind, AssertUnwindSafe};
use std::sync::atomic::{AtomicI64, AtomicPtr, AtomicUsize, Ordering::SeqCst};
use std::sync::Mutex;

// ---------------------------------------------------------------------------------------------
// event log
// ---------------------------------------------------------------------------------------------
pub static LOG: Mutex<Vec<String>> = Mutex::new(Vec::new());
/// when set, logging is a no-op that performs no allocation (allocation counting)
pub static QUIET: std::sync::atomic::AtomicBool = std::sync::atomic::AtomicBool::new(false);
#[inline]
fn quiet() -> bool {
    QUIET.load(SeqCst)
}
static PRE_HOOK: AtomicPtr<()> = AtomicPtr::new(std::ptr::null_mut());

/// Install a function that is called before every visible operation (used by the thread scheduler).
pub fn set_pre_hook(f: Option<fn(&str)>) {
    PRE_HOOK.store(f.map(|f| f as *mut ()).unwrap_or(std::ptr::null_mut()), SeqCst);
}
#[inline]
fn pre(site: &str) {
    let p = PRE_HOOK.load(SeqCst);
    if !p.is_null() {
        let f: fn(&str) = unsafe { std::mem::transmute(p) };
        f(site);
    }
}
fn push(s: String) {
    let fire = {
        let mut ps = PANIC_SITE.lock().unwrap_or_else(|e| e.into_inner());
        let hit = ps.as_deref().map(|site| s.split(':').next() == Some(site)).unwrap_or(false);
        if hit {
            *ps = None; // first occurrence only
        }
        hit
    };
    LOG.lock().unwrap_or_else(|e| e.into_inner()).push(s);
    if fire {
        panic!("injected panic at the event just logged");
    }
}
/// C18 sweep: the first event logged at this site panics right after it is logged (in the reference and in the macro alike)
pub static PANIC_SITE: Mutex<Option<String>> = Mutex::new(None);
/// input slot that selects the panicking site: 0 = none, n = the n-th distinct site (first-occurrence order) of the reference's
/// fault-free trace for the same row
pub const PANIC_SLOT: usize = 61;
fn sites_of(log: &[String]) -> Vec<String> {
    let mut v: Vec<String> = Vec::new();
    for e in log {
        let s = e.split(':').next().unwrap_or("").to_string();
        if !v.contains(&s) {
            v.push(s);
        }
    }
    v
}
/// C07: when switched on, a block-capture event (`c.…`) that is NOT evaluated by the thread that switched it on carries a suffix
static TAG_THREADS: std::sync::atomic::AtomicBool = std::sync::atomic::AtomicBool::new(false);
static TAG_CALLER: Mutex<Option<std::thread::ThreadId>> = Mutex::new(None);
pub fn tag_threads(on: bool) {
    *TAG_CALLER.lock().unwrap_or_else(|e| e.into_inner()) = if on { Some(std::thread::current().id()) } else { None };
    TAG_THREADS.store(on, SeqCst);
}
/// true when thread tagging is on and the current thread is not the one that switched it on
pub fn off_caller() -> bool {
    TAG_THREADS.load(SeqCst) && *TAG_CALLER.lock().unwrap_or_else(|e| e.into_inner()) != Some(std::thread::current().id())
}
fn tagged(site: &str) -> String {
    if site.starts_with("c.") && off_caller() {
        format!("{}@not-the-caller", site)
    } else {
        site.to_string()
    }
}
/// Log an event `site:arg`.
pub fn ev<T: Debug + ?Sized>(site: &str, v: &T) {
    if quiet() {
        return;
    }
    pre(site);
    push(format!("{}:{:?}", site, v));
}
/// Log an event without argument.
pub fn ev0(site: &str) {
    if quiet() {
        return;
    }
    pre(site);
    push(tagged(site));
}
/// Log the evaluation of a non-closure operand and return it.
pub fn lg<T>(site: &str, v: T) -> T {
    if quiet() {
        return v;
    }
    pre(site);
    push(format!("{}:operand", site));
    v
}
pub fn take_log() -> Vec<String> {
    std::mem::take(&mut *LOG.lock().unwrap_or_else(|e| e.into_inner()))
}
pub fn log_len() -> usize {
    LOG.lock().unwrap_or_else(|e| e.into_inner()).len()
}

// ---------------------------------------------------------------------------------------------
// run-time inputs
// ---------------------------------------------------------------------------------------------
pub const NINP: usize = 512;
#[allow(clippy::declare_interior_mutable_const)]
const Z: AtomicI64 = AtomicI64::new(0);
pub static INP: [AtomicI64; NINP] = [Z; NINP];
pub fn inp(k: usize) -> i64 {
    INP[k].load(SeqCst)
}
pub fn set_inp(row: &[i64]) {
    for (i, a) in INP.iter().enumerate() {
        a.store(row.get(i).copied().unwrap_or(0), SeqCst);
    }
}
/// `Option<i32>` start value: 0 => None, n => Some(n)
pub fn opt(k: usize) -> Option<i32> {
    match inp(k) {
        0 => None,
        n => Some(n as i32),
    }
}
/// `Result<i32,i32>` start value: n<0 => Err(-n), else Ok(n)
pub fn res(k: usize) -> Result<i32, i32> {
    match inp(k) {
        n if n < 0 => Err(-n as i32),
        n => Ok(n as i32),
    }
}
pub fn vc(k: usize) -> Vec<i32> {
    match inp(k) {
        0 => vec![],
        1 => vec![1],
        2 => vec![1, 2, 3, 4],
        _ => vec![3, 0, 6],
    }
}
pub fn optopt(k: usize) -> Option<Option<i32>> {
    match inp(k) {
        0 => None,
        1 => Some(None),
        n => Some(Some(n as i32)),
    }
}
pub fn vcopt(k: usize) -> Vec<Option<i32>> {
    match inp(k) {
        0 => vec![],
        1 => vec![Some(1), None, Some(3)],
        _ => vec![None, Some(2)],
    }
}
pub fn vctup(k: usize) -> Vec<(i32, i32)> {
    match inp(k) {
        0 => vec![],
        1 => vec![(1, 10), (2, 20), (3, 30)],
        _ => vec![(4, 0)],
    }
}
pub fn vcvec(k: usize) -> Vec<Vec<i32>> {
    match inp(k) {
        0 => vec![],
        1 => vec![vec![1, 2], vec![], vec![3]],
        _ => vec![vec![5]],
    }
}
pub fn vcres(k: usize) -> Vec<Result<i32, i32>> {
    match inp(k) {
        0 => vec![],
        1 => vec![Ok(1), Ok(2), Ok(4)],
        _ => vec![Ok(2), Err(9), Ok(3)],
    }
}
pub fn opttup(k: usize) -> Option<(i32, i32)> {
    match inp(k) {
        0 => None,
        n => Some((n as i32, 10 * n as i32)),
    }
}
pub fn int(k: usize) -> i32 {
    inp(k) as i32
}
pub fn to_vec<I: Iterator>(i: I) -> Vec<I::Item> {
    i.collect()
}
/// action selector for fault injection: 0 ok, 1 fail, 2 panic
pub fn act(k: usize) -> i64 {
    inp(k)
}
/// step outcome, plain value: act 2 => panic
pub fn st(slot: usize, val: i32) -> i32 {
    if act(slot) == 2 {
        panic!("injected panic at slot {}", slot);
    }
    val
}
/// step outcome, Result flavour: act 0 => Ok(val), 1 => Err(payload), 2 => panic
pub fn st_r(slot: usize, payload: i32, val: i32) -> Result<i32, i32> {
    match act(slot) {
        0 => Ok(val),
        1 => Err(payload),
        _ => panic!("injected panic at slot {}", slot),
    }
}
/// step outcome, Option flavour
pub fn st_o(slot: usize, val: i32) -> Option<i32> {
    match act(slot) {
        0 => Some(val),
        1 => None,
        _ => panic!("injected panic at slot {}", slot),
    }
}
fn idt<T>(t: T) -> T {
    t
}
/// A non-closure operand with a visible evaluation: logs, then returns the identity function.
pub fn lgf<T>(site: &str) -> fn(T) -> T {
    if quiet() {
        return idt::<T>;
    }
    pre(site);
    push(format!("{}:operand", site));
    idt::<T>
}
/// panics when input slot k says so (value 2)
pub fn maybe_panic(k: usize) {
    if inp(k) == 2 {
        panic!("injected panic at slot {}", k);
    }
}

// ---------------------------------------------------------------------------------------------
// kind-directed helpers
// ---------------------------------------------------------------------------------------------
/// value change
pub trait Bump {
    fn bump(self) -> Self;
}
/// deterministic predicate
pub trait P {
    fn p(&self) -> bool;
}
/// weight for folds
pub trait W {
    fn w(&self) -> i32;
}
/// a constant of the type
pub trait D {
    fn d() -> Self;
}
impl Bump for i32 {
    fn bump(self) -> i32 {
        self.wrapping_mul(2).wrapping_add(1)
    }
}
impl Bump for usize {
    fn bump(self) -> usize {
        self + 10
    }
}
impl Bump for bool {
    fn bump(self) -> bool {
        !self
    }
}
impl Bump for () {
    fn bump(self) {}
}
impl<T: Bump> Bump for Option<T> {
    fn bump(self) -> Self {
        self.map(Bump::bump)
    }
}
impl<T: Bump> Bump for Result<T, i32> {
    fn bump(self) -> Self {
        match self {
            Ok(v) => Ok(v.bump()),
            Err(e) => Err(e + 100),
        }
    }
}
impl<T: Bump> Bump for Vec<T> {
    fn bump(self) -> Self {
        self.into_iter().rev().map(Bump::bump).collect()
    }
}
impl<A: Bump, B: Bump> Bump for (A, B) {
    fn bump(self) -> Self {
        (self.0.bump(), self.1.bump())
    }
}
impl<T: W> W for &T {
    fn w(&self) -> i32 {
        (**self).w()
    }
}
impl W for i32 {
    fn w(&self) -> i32 {
        *self
    }
}
impl W for usize {
    fn w(&self) -> i32 {
        *self as i32 + 1
    }
}
impl W for bool {
    fn w(&self) -> i32 {
        *self as i32 + 2
    }
}
impl W for () {
    fn w(&self) -> i32 {
        4
    }
}
impl<T: W> W for Option<T> {
    fn w(&self) -> i32 {
        self.as_ref().map(|v| v.w() + 1).unwrap_or(0)
    }
}
impl<T: W> W for Result<T, i32> {
    fn w(&self) -> i32 {
        match self {
            Ok(v) => v.w() + 1,
            Err(e) => -*e,
        }
    }
}
impl<T: W> W for Vec<T> {
    fn w(&self) -> i32 {
        self.iter().map(|v| v.w()).sum::<i32>() + self.len() as i32
    }
}
impl<A: W, B: W> W for (A, B) {
    fn w(&self) -> i32 {
        self.0.w() * 3 + self.1.w()
    }
}
impl<T: W> P for T {
    fn p(&self) -> bool {
        self.w().rem_euclid(2) == 0
    }
}
impl D for i32 {
    fn d() -> i32 {
        40
    }
}
impl D for usize {
    fn d() -> usize {
        41
    }
}
impl D for bool {
    fn d() -> bool {
        true
    }
}
impl D for () {
    fn d() {}
}
impl<T: D> D for Option<T> {
    fn d() -> Self {
        Some(T::d())
    }
}
impl<T: D> D for Result<T, i32> {
    fn d() -> Self {
        Ok(T::d())
    }
}
impl<T: D> D for Vec<T> {
    fn d() -> Self {
        vec![T::d()]
    }
}
impl<A: D, B: D> D for (A, B) {
    fn d() -> Self {
        (A::d(), B::d())
    }
}

// ---------------------------------------------------------------------------------------------
// move-only, drop-counting token
// ---------------------------------------------------------------------------------------------
pub static TOK_NEW: AtomicUsize = AtomicUsize::new(0);
pub static TOK_DROP: AtomicUsize = AtomicUsize::new(0);
pub static TOK_DROPPED: Mutex<Vec<i64>> = Mutex::new(Vec::new());
/// Move-only (no Clone/Copy), logs its id when dropped.
#[derive(Debug, PartialEq, Eq)]
pub struct Tok(pub i64);
impl Tok {
    pub fn new(id: i64) -> Tok {
        TOK_NEW.fetch_add(1, SeqCst);
        Tok(id)
    }
    /// consume and produce a successor token (the old one is dropped here)
    pub fn next(self, add: i64) -> Tok {
        let id = self.0;
        drop(self);
        Tok::new(id * 10 + add)
    }
}
impl Drop for Tok {
    fn drop(&mut self) {
        TOK_DROP.fetch_add(1, SeqCst);
        TOK_DROPPED.lock().unwrap_or_else(|e| e.into_inner()).push(self.0);
    }
}
pub static CNT: AtomicI64 = AtomicI64::new(0);
/// successive values 1, 2, 3, ... within one run (token-identical expressions that evaluate to different values)
pub fn cnt() -> i32 {
    CNT.fetch_add(1, SeqCst) as i32 + 1
}
pub fn tok_reset() {
    CNT.store(0, SeqCst);
    TOK_NEW.store(0, SeqCst);
    TOK_DROP.store(0, SeqCst);
    TOK_DROPPED.lock().unwrap_or_else(|e| e.into_inner()).clear();
}
/// (created, dropped, sorted multiset of dropped ids)
pub fn tok_stats() -> (usize, usize, Vec<i64>) {
    let mut v = TOK_DROPPED.lock().unwrap_or_else(|e| e.into_inner()).clone();
    v.sort();
    (TOK_NEW.load(SeqCst), TOK_DROP.load(SeqCst), v)
}

// ---------------------------------------------------------------------------------------------
// counting allocator (opt-in: the harness crate declares `#[global_allocator] static A: vrt::CountAlloc`)
// ---------------------------------------------------------------------------------------------
pub struct CountAlloc;
pub static ALLOCS: AtomicUsize = AtomicUsize::new(0);
pub static ALLOC_ON: AtomicUsize = AtomicUsize::new(0);
unsafe impl std::alloc::GlobalAlloc for CountAlloc {
    unsafe fn alloc(&self, l: std::alloc::Layout) -> *mut u8 {
        if ALLOC_ON.load(SeqCst) == 1 {
            ALLOCS.fetch_add(1, SeqCst);
        }
        std::alloc::System.alloc(l)
    }
    unsafe fn dealloc(&self, p: *mut u8, l: std::alloc::Layout) {
        std::alloc::System.dealloc(p, l)
    }
    unsafe fn realloc(&self, p: *mut u8, l: std::alloc::Layout, n: usize) -> *mut u8 {
        if ALLOC_ON.load(SeqCst) == 1 {
            ALLOCS.fetch_add(1, SeqCst);
        }
        std::alloc::System.realloc(p, l, n)
    }
}
/// Count allocations made by `f` on this (single-threaded) run; logging is switched off meanwhile.
pub fn count_allocs<R>(f: impl FnOnce() -> R) -> (R, usize) {
    QUIET.store(true, SeqCst);
    ALLOCS.store(0, SeqCst);
    ALLOC_ON.store(1, SeqCst);
    let r = f();
    ALLOC_ON.store(0, SeqCst);
    QUIET.store(false, SeqCst);
    (r, ALLOCS.load(SeqCst))
}
/// step outcome over move-only tokens
pub fn st_t(slot: usize, t: Tok) -> Tok {
    if act(slot) == 2 {
        panic!("injected panic at slot {}", slot);
    }
    t
}
pub fn st_tr(slot: usize, payload: i32, t: Tok) -> Result<Tok, i32> {
    match act(slot) {
        0 => Ok(t),
        1 => Err(payload),
        _ => panic!("injected panic at slot {}", slot),
    }
}

// ---------------------------------------------------------------------------------------------
// a minimal block_on without nesting restrictions (park/unpark waker)
// ---------------------------------------------------------------------------------------------
struct ParkWaker(std::thread::Thread);
impl std::task::Wake for ParkWaker {
    fn wake(self: std::sync::Arc<Self>) {
        self.0.unpark();
    }
    fn wake_by_ref(self: &std::sync::Arc<Self>) {
        self.0.unpark();
    }
}
pub fn bo<F: std::future::Future>(f: F) -> F::Output {
    let mut f = Box::pin(f);
    let w: std::task::Waker = std::sync::Arc::new(ParkWaker(std::thread::current())).into();
    let mut cx = std::task::Context::from_waker(&w);
    loop {
        if let std::task::Poll::Ready(v) = f.as_mut().poll(&mut cx) {
            return v;
        }
        std::thread::park_timeout(std::time::Duration::from_millis(50));
    }
}
/// A future that returns Pending (after waking itself) `n` times before it is ready: a pending point for free-running
/// executors (real tokio / futures) whose wake-ups travel through the real machinery.
pub struct Pend(pub usize);
pub fn pend(n: usize) -> Pend {
    Pend(n)
}
impl std::future::Future for Pend {
    type Output = ();
    fn poll(mut self: std::pin::Pin<&mut Self>, cx: &mut std::task::Context<'_>) -> std::task::Poll<()> {
        if self.0 == 0 {
            std::task::Poll::Ready(())
        } else {
            self.0 -= 1;
            cx.waker().wake_by_ref();
            std::task::Poll::Pending
        }
    }
}
pub fn x2(q: (i32, i32)) -> i32 {
    q.0 * 7 + q.1
}
pub fn xr(q: Result<(i32, i32), i32>) -> i32 {
    q.map(x2).unwrap_or(-1)
}

// ---------------------------------------------------------------------------------------------
// differential driver
// ---------------------------------------------------------------------------------------------
#[derive(Clone, Copy, PartialEq, Eq)]
pub enum Cmp {
    /// value and full trace must be equal
    Full,
    /// value equal, per-branch projections of the trace equal (site prefix up to the first '.')
    Proj,
    /// value only
    Value,
    /// concurrent kinds: value equal, per-branch projections equal, events never go back to an earlier step
    ProjSteps,
    /// async try kinds: value equal or member of the reference's `ANYOF[a|b|..]`, every per-branch projection
    /// of the macro's trace is a prefix of the reference's (equal when the value is a success), steps monotone
    TryAsync,
}
pub struct Prog {
    pub id: &'static str,
    pub r: fn() -> String,
    pub m: fn() -> String,
    pub rows: &'static [&'static [i64]],
    /// every subset of these input slots is additionally set to 1 on top of each row (fault enumeration)
    pub sub: &'static [usize],
    pub cmp: Cmp,
}
pub fn panic_msg(p: &Box<dyn Any + Send>) -> String {
    if let Some(s) = p.downcast_ref::<&str>() {
        s.to_string()
    } else if let Some(s) = p.downcast_ref::<String>() {
        s.clone()
    } else {
        "<non-string panic>".to_string()
    }
}
/// Run `f` with a clean log; returns (value or "PANIC", trace, tok stats).
pub fn run1(f: fn() -> String) -> (String, Vec<String>, (usize, usize, Vec<i64>)) {
    take_log();
    tok_reset();
    let v = match catch_unwind(AssertUnwindSafe(f)) {
        Ok(s) => s,
        Err(_) => "PANIC".to_string(),
    };
    let log = take_log();
    (v, log, tok_stats())
}
pub fn jesc(s: &str) -> String {
    let mut o = String::with_capacity(s.len() + 2);
    o.push('"');
    for c in s.chars() {
        match c {
            '"' => o.push_str("\\\""),
            '\\' => o.push_str("\\\\"),
            '\n' => o.push_str("\\n"),
            '\t' => o.push_str("\\t"),
            '\r' => o.push_str("\\r"),
            c if (c as u32) < 0x20 => o.push_str(&format!("\\u{:04x}", c as u32)),
            c => o.push(c),
        }
    }
    o.push('"');
    o
}
pub fn jlist(v: &[String]) -> String {
    format!("[{}]", v.iter().map(|s| jesc(s)).collect::<Vec<_>>().join(","))
}
fn proj(log: &[String]) -> Vec<(String, Vec<String>)> {
    let mut m: std::collections::BTreeMap<String, Vec<String>> = Default::default();
    for e in log {
        let key = e.split('.').next().unwrap_or("").to_string();
        m.entry(key).or_default().push(e.clone());
    }
    m.into_iter().collect()
}
/// step index of an event: second dot-separated field of its site, if numeric
fn step_of(e: &str) -> Option<u32> {
    let site = e.split(':').next().unwrap_or("");
    let mut it = site.split('.');
    it.next()?;
    // step fields >= 90 are markers (handler, end of evaluation), not steps
    it.next()?.parse().ok().filter(|k: &u32| *k < 90)
}
pub fn steps_monotone(log: &[String]) -> bool {
    let mut cur = 0u32;
    for e in log {
        if let Some(k) = step_of(e) {
            if k < cur {
                return false;
            }
            cur = k;
        }
    }
    true
}
fn value_in(mv: &str, rv: &str) -> bool {
    if let Some(rest) = rv.strip_prefix("ANYOF[") {
        let rest = rest.strip_suffix(']').unwrap_or(rest);
        rest.split('|').any(|a| a == mv)
    } else {
        mv == rv
    }
}
fn proj_prefix(ml: &[String], rl: &[String]) -> bool {
    let r: std::collections::BTreeMap<String, Vec<String>> = proj(rl).into_iter().collect();
    proj(ml).into_iter().all(|(k, v)| r.get(&k).map(|rv| rv.len() >= v.len() && rv[..v.len()] == v[..]).unwrap_or(false))
}
/// Runs every program on every row; prints one JSON line per program.
pub fn drive(progs: &[Prog]) {
    std::panic::set_hook(Box::new(|_| {}));
    let only: Option<String> = std::env::var("VRT_ONLY").ok();
    let stdout = std::io::stdout();
    use std::io::Write;
    let mut out = std::io::BufWriter::new(stdout.lock());
    for p in progs {
        if let Some(o) = &only {
            if !o.split(";;").any(|x| x == p.id) {
                continue;
            }
        }
        let mut mism: Vec<String> = Vec::new();
        let (mut nvm, mut ntm) = (0usize, 0usize);
        let mut outcomes: std::collections::BTreeSet<(String, Vec<String>)> = Default::default();
        let mut nonempty_trace = false;
        let mut sample = String::new();
        let mut allrows: Vec<Vec<i64>> = Vec::new();
        let sweep = p.sub.contains(&PANIC_SLOT);
        let subs: Vec<usize> = p.sub.iter().cloned().filter(|s| *s != PANIC_SLOT).collect();
        for row in p.rows {
            for mask in 0u64..(1u64 << subs.len()) {
                let mut r: Vec<i64> = row.to_vec();
                for (i, s) in subs.iter().enumerate() {
                    if mask >> i & 1 == 1 {
                        if r.len() <= *s {
                            r.resize(*s + 1, 0);
                        }
                        r[*s] = 1;
                    }
                }
                if sweep {
                    // one more row per distinct event site of the reference's trace for THIS row (failures included): that event panics
                    let mut b: Vec<i64> = r.clone();
                    if b.len() <= PANIC_SLOT {
                        b.resize(PANIC_SLOT + 1, 0);
                    }
                    b[PANIC_SLOT] = 0;
                    set_inp(&b);
                    let (_, rl0, _) = run1(p.r);
                    for n in 1..=sites_of(&rl0).len() {
                        let mut r2 = b.clone();
                        r2[PANIC_SLOT] = n as i64;
                        allrows.push(r2);
                    }
                }
                allrows.push(r);
            }
        }
        for row in &allrows {
            let pn = if sweep { row.get(PANIC_SLOT).copied().unwrap_or(0) } else { 0 };
            let mut rl0: Vec<String> = Vec::new();
            let mut psite: Option<String> = None;
            if pn > 0 {
                let mut b = row.clone();
                b[PANIC_SLOT] = 0;
                set_inp(&b);
                rl0 = run1(p.r).1;
                psite = sites_of(&rl0).get(pn as usize - 1).cloned();
            }
            set_inp(row);
            *PANIC_SITE.lock().unwrap_or_else(|e| e.into_inner()) = psite.clone();
            let (rv, rl, rt) = run1(p.r);
            set_inp(row);
            *PANIC_SITE.lock().unwrap_or_else(|e| e.into_inner()) = psite.clone();
            let (mv, ml, mt) = run1(p.m);
            *PANIC_SITE.lock().unwrap_or_else(|e| e.into_inner()) = None;
            if !rl.is_empty() {
                nonempty_trace = true;
            }
            let ok = if let Some(site) = &psite {
                // a panic of a user expression reaches the caller; nothing of a later step runs; what ran before is what the
                // reference ran (sequential macros: the very same trace)
                let k = step_of(site);
                let later = |l: &[String]| l.iter().any(|e| match (step_of(e), k) { (Some(a), Some(b)) => a > b, _ => false });
                rv != "PANIC" // the reference swallowed it (cannot happen for a logged site); nothing to compare
                    || (mv == "PANIC"
                        && match p.cmp {
                            Cmp::Full => ml == rl,
                            _ => proj_prefix(&ml, &rl0) && !later(&ml),
                        })
            } else {
                match p.cmp {
                Cmp::Full => rv == mv && rl == ml && rt == mt,
                Cmp::Proj => rv == mv && proj(&rl) == proj(&ml) && rt == mt,
                Cmp::Value => rv == mv,
                Cmp::ProjSteps => rv == mv && proj(&rl) == proj(&ml) && rt == mt && steps_monotone(&ml),
                Cmp::TryAsync => {
                    value_in(&mv, &rv)
                        && steps_monotone(&ml)
                        && if rv.starts_with("ANYOF[") || rv.starts_with("Err") || rv.starts_with("None") {
                            proj_prefix(&ml, &rl)
                        } else {
                            proj(&rl) == proj(&ml) && rt == mt
                        }
                }
                }
            };
            if sample.is_empty() {
                sample = format!("{{\"row\":{:?},\"value\":{},\"trace\":{}}}", row, jesc(&mv), jlist(&ml));
            }
            outcomes.insert((rv.clone(), rl.clone()));
            let vdiff = !(rv == mv || (p.cmp == Cmp::TryAsync && value_in(&mv, &rv)));
            if !ok {
                if vdiff {
                    nvm += 1;
                } else {
                    ntm += 1;
                }
            }
            if !ok && ((vdiff && nvm <= 3) || (!vdiff && ntm <= 3)) {
                mism.push(format!(
                    "{{\"class\":{},\"row\":{:?},\"ref\":{{\"value\":{},\"trace\":{},\"toks\":{}}},\"mac\":{{\"value\":{},\"trace\":{},\"toks\":{}}}}}",
                    jesc(if vdiff { "value" } else { "trace" }),
                    row,
                    jesc(&rv),
                    jlist(&rl),
                    jesc(&format!("{:?}", rt)),
                    jesc(&mv),
                    jlist(&ml),
                    jesc(&format!("{:?}", mt))
                ));
            }
        }
        let nm = nvm + ntm;
        let shown: Vec<String> = mism;
        writeln!(
            out,
            "{{\"id\":{},\"rows\":{},\"outcomes\":{},\"traced\":{},\"nmism\":{},\"nvalue\":{},\"ntrace\":{},\"mism\":[{}],\"sample\":{}}}",
            jesc(p.id),
            allrows.len(),
            outcomes.len(),
            nonempty_trace,
            nm,
            nvm,
            ntm,
            shown.join(","),
            if sample.is_empty() { "null".to_string() } else { sample }
        )
        .unwrap();
    }
    out.flush().unwrap();
}
