//! E3-A: deterministic executor with harness-controlled gate futures and a `tokio::spawn` shim (DESIGN §2.6).
//!
//! An execution is a sequence of decisions: poll a runnable entity (the root future if never polled or woken,
//! any woken task), release an unreleased gate (before or after it was first polled), or poll the root
//! spuriously (bounded). The explorer enumerates ALL decision sequences by re-execution from a choice prefix.
//! Consecutive releases commute, so only ascending runs of releases are explored (sound reduction: a release
//! only adds to the released set and sets wake flags).
use std::cell::RefCell;
use std::collections::{BTreeMap, BTreeSet};
use std::future::Future;
use std::panic::{catch_unwind, AssertUnwindSafe};
use std::pin::Pin;
use std::sync::atomic::{AtomicBool, Ordering::SeqCst};
use std::sync::{Arc, Mutex};
use std::task::{Context, Poll, Wake, Waker};

pub struct Flag(AtomicBool);
impl Wake for Flag {
    fn wake(self: Arc<Self>) {
        self.0.store(true, SeqCst);
    }
    fn wake_by_ref(self: &Arc<Self>) {
        self.0.store(true, SeqCst);
    }
}
fn flag(v: bool) -> Arc<Flag> {
    Arc::new(Flag(AtomicBool::new(v)))
}

struct Task {
    fut: Option<Pin<Box<dyn Future<Output = ()>>>>,
    flag: Arc<Flag>,
    done: bool,
}

struct World {
    active: bool,
    released: BTreeSet<usize>,
    arrived: BTreeMap<usize, Waker>,
    polled: BTreeSet<usize>,
    tasks: Vec<Task>,
    /// spawned tasks whose future panicked (the panic is owed to whoever awaits the JoinHandle)
    task_panics: usize,
    /// number of JoinHandle polls so far (the macro's future watching its tasks)
    handle_polls: usize,
    /// tasks that completed while their (still alive) JoinHandle had no waker registered although the macro's future had polled
    /// some JoinHandle after the task was spawned: it is joining, but not watching this task
    unwatched: usize,
    /// gates that had a parked waiter (a registered waker) at the moment they were released
    parked_released: BTreeSet<usize>,
}
thread_local! {
    static WORLD: RefCell<World> = RefCell::new(World { active: false, released: BTreeSet::new(), arrived: BTreeMap::new(), polled: BTreeSet::new(), tasks: Vec::new(), task_panics: 0, handle_polls: 0, unwatched: 0, parked_released: BTreeSet::new() });
}
/// What `tokio::runtime::Handle::current().runtime_flavor()` answers (an environment answer owned by the harness):
/// 0 = multi-thread, 1 = current-thread. The task-spawning programs are explored under both answers.
pub static FLAVOR: std::sync::atomic::AtomicUsize = std::sync::atomic::AtomicUsize::new(0);
pub fn active() -> bool {
    WORLD.with(|w| w.borrow().active)
}

/// Harness-controlled pending point. Free-running (no explorer active): always ready.
pub struct Gate(pub usize);
pub fn gate(id: usize) -> Gate {
    Gate(id)
}
impl Future for Gate {
    type Output = ();
    fn poll(self: Pin<&mut Self>, cx: &mut Context<'_>) -> Poll<()> {
        let id = self.0;
        WORLD.with(|w| {
            let mut w = w.borrow_mut();
            if !w.active {
                return Poll::Ready(());
            }
            w.polled.insert(id);
            if w.released.contains(&id) {
                w.arrived.remove(&id);
                Poll::Ready(())
            } else {
                w.arrived.insert(id, cx.waker().clone());
                Poll::Pending
            }
        })
    }
}

pub mod shim {
    use super::*;
    pub struct JoinError(String);
    impl std::fmt::Debug for JoinError {
        fn fmt(&self, f: &mut std::fmt::Formatter<'_>) -> std::fmt::Result {
            write!(f, "JoinError::Panic({})", self.0)
        }
    }
    impl std::fmt::Display for JoinError {
        fn fmt(&self, f: &mut std::fmt::Formatter<'_>) -> std::fmt::Result {
            write!(f, "task panicked: {}", self.0)
        }
    }
    impl std::error::Error for JoinError {}
    impl JoinError {
        pub fn is_panic(&self) -> bool {
            true
        }
        pub fn is_cancelled(&self) -> bool {
            false
        }
    }
    type Slot<T> = Arc<Mutex<(Option<Result<T, JoinError>>, Option<Waker>)>>;
    pub struct JoinHandle<T> {
        slot: Slot<T>,
    }
    impl<T> Future for JoinHandle<T> {
        type Output = Result<T, JoinError>;
        fn poll(self: Pin<&mut Self>, cx: &mut Context<'_>) -> Poll<Self::Output> {
            WORLD.with(|w| w.borrow_mut().handle_polls += 1);
            let mut s = self.slot.lock().unwrap();
            if let Some(r) = s.0.take() {
                Poll::Ready(r)
            } else {
                s.1 = Some(cx.waker().clone());
                Poll::Pending
            }
        }
    }
    impl<T> Unpin for JoinHandle<T> {}
    /// yields once to the executor (wakes itself)
    pub async fn yield_now() {
        let mut yielded = false;
        std::future::poll_fn(move |cx| {
            if yielded {
                Poll::Ready(())
            } else {
                yielded = true;
                cx.waker().wake_by_ref();
                Poll::Pending
            }
        })
        .await
    }
    pub fn spawn<F>(f: F) -> JoinHandle<F::Output>
    where
        F: Future + Send + 'static,
        F::Output: Send + 'static,
    {
        if !active() {
            panic!("there is no reactor running, must be called from the context of a Tokio 1.x runtime");
        }
        let slot: Slot<F::Output> = Arc::new(Mutex::new((None, None)));
        let s2 = slot.clone();
        let s3 = slot.clone();
        let mut inner = Box::pin(f);
        let spawn_epoch = WORLD.with(|w| w.borrow().handle_polls);
        // the task: poll the user future under catch_unwind; a panic becomes Err(JoinError) for the handle
        let fut = Box::pin(std::future::poll_fn(move |cx| {
            let r = catch_unwind(AssertUnwindSafe(|| inner.as_mut().poll(cx)));
            let out = match r {
                Ok(Poll::Pending) => return Poll::Pending,
                Ok(Poll::Ready(v)) => Ok(v),
                Err(p) => {
                    WORLD.with(|w| w.borrow_mut().task_panics += 1);
                    Err(JoinError(vrt::panic_msg(&p)))
                }
            };
            let mut s = s2.lock().unwrap();
            s.0 = Some(out);
            if let Some(w) = s.1.take() {
                w.wake();
            } else if Arc::strong_count(&s2) > 1 && WORLD.with(|w| w.borrow().handle_polls) > spawn_epoch {
                // (strong count: this closure holds one clone; a second one is the live JoinHandle)
                WORLD.with(|w| w.borrow_mut().unwatched += 1);
            }
            Poll::Ready(())
        }));
        let _ = s3;
        WORLD.with(|w| w.borrow_mut().tasks.push(Task { fut: Some(fut), flag: flag(true), done: false }));
        JoinHandle { slot }
    }
}

// ---------------------------------------------------------------------------------------------
// one execution
// ---------------------------------------------------------------------------------------------
#[derive(Clone, Debug, PartialEq)]
pub enum Dec {
    PollRoot,
    PollTask(usize),
    Release(usize),
    Spurious,
}
pub type Root = Pin<Box<dyn Future<Output = String>>>;

#[derive(Clone, Debug)]
pub struct Exec {
    pub value: Option<String>, // None: never completed
    pub panicked: bool,
    pub hang: bool,
    pub log: Vec<String>,
    pub trace: Vec<(usize, usize, u64)>,
    pub decisions: Vec<Dec>,
    pub lazy_ok: bool,
    pub invariant_violation: Option<String>,
    pub divergence: bool,
    pub states: Vec<u64>,
    pub polls_after_done: bool,
    /// a task completed while the macro's future was pending in a join that did not watch it (see World::unwatched)
    pub unwatched_completion: bool,
}

fn hash_state(w: &World, root_waker: &Waker, last_release: Option<usize>, root_flag: bool, root_done: bool, log: &[String], spur: usize) -> u64 {
    use std::hash::{Hash, Hasher};
    let mut h = std::collections::hash_map::DefaultHasher::new();
    w.released.hash(&mut h);
    last_release.hash(&mut h);
    // which entity each registered waker wakes is part of the state (a stale or foreign waker must not be merged)
    for (g, wk) in &w.arrived {
        let tag: usize = if wk.will_wake(root_waker) {
            0
        } else {
            w.tasks
                .iter()
                .position(|t| {
                    let tw: Waker = t.flag.clone().into();
                    wk.will_wake(&tw)
                })
                .map(|i| i + 1)
                .unwrap_or(usize::MAX)
        };
        (g, tag).hash(&mut h);
    }
    for t in &w.tasks {
        (t.flag.0.load(SeqCst), t.done).hash(&mut h);
    }
    (root_flag, root_done, spur).hash(&mut h);
    // what the invariants read beyond the above: which released gates had a parked waiter, unwatched completions, task panics
    w.parked_released.hash(&mut h);
    (w.unwatched > 0, w.task_panics > 0).hash(&mut h);
    log.hash(&mut h);
    h.finish()
}

/// `inv(released, arrived, log)` is evaluated at every quiescent point (nothing runnable).
pub fn run_one(
    mk: fn() -> Root,
    gates: &[usize],
    spurious: usize,
    script: &[usize],
    inv: &dyn Fn(&BTreeSet<usize>, &BTreeSet<usize>, &[String]) -> Option<String>,
) -> Exec {
    vrt::take_log();
    vrt::tok_reset();
    WORLD.with(|w| {
        let mut w = w.borrow_mut();
        w.active = true;
        w.released.clear();
        w.arrived.clear();
        w.polled.clear();
        w.tasks.clear();
        w.task_panics = 0;
        w.handle_polls = 0;
        w.unwatched = 0;
        w.parked_released.clear();
    });
    let mut ex = Exec {
        value: None,
        panicked: false,
        hang: false,
        log: vec![],
        trace: vec![],
        decisions: vec![],
        lazy_ok: true,
        invariant_violation: None,
        divergence: false,
        states: vec![],
        polls_after_done: false,
        unwatched_completion: false,
    };
    let root_flag = flag(true);
    let root_waker: Waker = root_flag.clone().into();
    let mut root: Option<Root> = match catch_unwind(AssertUnwindSafe(mk)) {
        Ok(r) => Some(r),
        Err(_) => {
            ex.panicked = true;
            ex.lazy_ok = false; // constructing the future must not evaluate (let alone panic in) anything
            None
        }
    };
    if vrt::log_len() != 0 || WORLD.with(|w| !w.borrow().polled.is_empty() || !w.borrow().tasks.is_empty()) {
        ex.lazy_ok = false;
    }
    let mut root_done = root.is_none();
    let mut spur_left = spurious;
    let mut pos = 0usize;
    let mut last_release: Option<usize> = None;
    while !root_done {
        let mut opts: Vec<Dec> = Vec::new();
        if root_flag.0.load(SeqCst) {
            opts.push(Dec::PollRoot);
        }
        WORLD.with(|w| {
            let w = w.borrow();
            for (i, t) in w.tasks.iter().enumerate() {
                if !t.done && t.flag.0.load(SeqCst) {
                    opts.push(Dec::PollTask(i));
                }
            }
        });
        let quiescent = opts.is_empty();
        let snapshot = vrt::LOG.lock().unwrap_or_else(|e| e.into_inner()).clone();
        // every task is idle but the macro's own future is woken and not polled yet ("the parent is not polled for a while"): evaluated
        // with the gates whose parked waiter was woken by its release, marked by the sentinel usize::MAX in the second set
        if !quiescent && opts.iter().all(|o| *o == Dec::PollRoot) && ex.invariant_violation.is_none() && !ex.decisions.is_empty() {
            let (rel, mut parked) = WORLD.with(|w| {
                let w = w.borrow();
                (w.released.clone(), w.parked_released.clone())
            });
            parked.insert(usize::MAX);
            ex.invariant_violation = inv(&rel, &parked, &snapshot);
        }
        if quiescent && ex.invariant_violation.is_none() {
            let (rel, arr) = WORLD.with(|w| {
                let w = w.borrow();
                (w.released.clone(), w.arrived.keys().cloned().collect::<BTreeSet<usize>>())
            });
            ex.invariant_violation = inv(&rel, &arr, &snapshot);
            // a task of the current step has panicked and its JoinHandle woke the macro's future; the future has been polled since
            // (nothing is runnable) and is STILL pending: the caller is left blocked behind a sibling although a panic is owed
            if ex.invariant_violation.is_none() && !root_done && WORLD.with(|w| w.borrow().task_panics > 0) {
                ex.invariant_violation = Some("quiescent state: a spawned branch has panicked, nothing is runnable, and the macro's future is still pending — the panic does not reach the caller until an unrelated sibling completes (the caller is left blocked)".into());
            }
        }
        WORLD.with(|w| {
            let w = w.borrow();
            ex.states.push(hash_state(&w, &root_waker, last_release, root_flag.0.load(SeqCst), root_done, &snapshot, spur_left));
            for &g in gates {
                if !w.released.contains(&g) && last_release.map(|l| g > l).unwrap_or(true) {
                    opts.push(Dec::Release(g));
                }
            }
        });
        if spur_left > 0 && !root_flag.0.load(SeqCst) {
            opts.push(Dec::Spurious);
        }
        let real_opts = opts.iter().filter(|o| **o != Dec::Spurious).count();
        if real_opts == 0 {
            // nothing can happen any more (all gates released or not releasable in canonical order, nothing runnable)
            let all_released = WORLD.with(|w| gates.iter().all(|g| w.borrow().released.contains(g)));
            if all_released {
                ex.hang = true;
                break;
            }
            if last_release.is_some() {
                // canonical-order restriction only: lift it
                last_release = None;
                continue;
            }
            ex.hang = true;
            break;
        }
        let choice = if opts.len() > 1 {
            let c = if pos < script.len() {
                if script[pos] >= opts.len() {
                    ex.divergence = true;
                    0
                } else {
                    script[pos]
                }
            } else {
                0
            };
            pos += 1;
            ex.trace.push((opts.len(), c, *ex.states.last().unwrap()));
            c
        } else {
            0
        };
        let d = opts[choice].clone();
        ex.decisions.push(d.clone());
        match d {
            Dec::PollRoot | Dec::Spurious => {
                if d == Dec::Spurious {
                    spur_left -= 1;
                }
                last_release = None;
                root_flag.0.store(false, SeqCst);
                let mut cx = Context::from_waker(&root_waker);
                let r = catch_unwind(AssertUnwindSafe(|| root.as_mut().unwrap().as_mut().poll(&mut cx)));
                match r {
                    Ok(Poll::Ready(v)) => {
                        ex.value = Some(v);
                        root_done = true;
                    }
                    Ok(Poll::Pending) => {}
                    Err(_) => {
                        ex.panicked = true;
                        root_done = true;
                    }
                }
            }
            Dec::PollTask(i) => {
                last_release = None;
                let (mut fut, fl) = WORLD.with(|w| {
                    let mut w = w.borrow_mut();
                    let t = &mut w.tasks[i];
                    t.flag.0.store(false, SeqCst);
                    (t.fut.take().unwrap(), t.flag.clone())
                });
                let wk: Waker = fl.into();
                let mut cx = Context::from_waker(&wk);
                let r = fut.as_mut().poll(&mut cx);
                WORLD.with(|w| {
                    let mut w = w.borrow_mut();
                    let t = &mut w.tasks[i];
                    match r {
                        Poll::Ready(()) => t.done = true,
                        Poll::Pending => t.fut = Some(fut),
                    }
                    if w.unwatched > 0 && !root_done {
                        ex.unwatched_completion = true;
                    }
                });
            }
            Dec::Release(g) => {
                last_release = Some(g);
                let wk = WORLD.with(|w| {
                    let mut w = w.borrow_mut();
                    w.released.insert(g);
                    let wk = w.arrived.remove(&g);
                    if wk.is_some() {
                        w.parked_released.insert(g);
                    }
                    wk
                });
                if let Some(wk) = wk {
                    wk.wake();
                }
            }
        }
    }
    drop(root);
    WORLD.with(|w| {
        let mut w = w.borrow_mut();
        w.tasks.clear();
        w.arrived.clear();
        w.active = false;
    });
    ex.log = vrt::take_log();
    ex
}

pub struct Stats {
    pub executions: u64,
    pub decisions: u64,
    pub states: usize,
    pub capped: bool,
    pub distinct_logs: usize,
    pub last_script: Vec<usize>,
}

pub fn explore(
    mk: fn() -> Root,
    gates: &[usize],
    spurious: usize,
    cap: u64,
    prune: bool,
    inv: &dyn Fn(&BTreeSet<usize>, &BTreeSet<usize>, &[String]) -> Option<String>,
    mut check: impl FnMut(&Exec, &[usize]),
) -> Stats {
    // prune = true: explicit-state search. A decision point whose canonical state (released set, registered wakers
    // and whom they wake, runnable flags, task completion, log, spurious budget, release-order restriction) was
    // already expanded is not expanded again: the state determines every future of these programs (each future's
    // position is a function of the gates it passed — visible in the log — and of its registered waker).
    let mut visited: BTreeSet<u64> = BTreeSet::new();
    let mut stack: Vec<Vec<usize>> = vec![vec![]];
    let mut st = Stats { executions: 0, decisions: 0, states: 0, capped: false, distinct_logs: 0, last_script: vec![] };
    let mut states: BTreeSet<u64> = BTreeSet::new();
    let mut logs: BTreeSet<Vec<String>> = BTreeSet::new();
    while let Some(prefix) = stack.pop() {
        if st.executions >= cap {
            st.capped = true;
            break;
        }
        let ex = run_one(mk, gates, spurious, &prefix, inv);
        st.executions += 1;
        st.decisions += ex.decisions.len() as u64;
        let script: Vec<usize> = ex.trace.iter().map(|t| t.1).collect();
        st.last_script = script.clone();
        check(&ex, &script);
        for s in &ex.states {
            states.insert(*s);
        }
        logs.insert(ex.log.clone());
        for i in prefix.len()..ex.trace.len() {
            let (n, _, h) = ex.trace[i];
            if prune {
                if visited.contains(&h) {
                    break;
                }
                visited.insert(h);
            }
            for alt in 1..n {
                let mut s: Vec<usize> = script[..i].to_vec();
                s.push(alt);
                stack.push(s);
            }
        }
    }
    st.states = states.len();
    st.distinct_logs = logs.len();
    st
}

// ---------------------------------------------------------------------------------------------
// generic harness
// ---------------------------------------------------------------------------------------------
pub mod harness {
    use super::*;
    use vrt::{jesc, jlist};

    /// gate, then log, then the step outcome (plain / Result flavour)
    pub async fn gated(g: usize, site: &'static str, slot: usize, val: i32) -> i32 {
        gate(g).await;
        vrt::ev(site, &val);
        vrt::st(slot, val)
    }
    pub async fn gated_r(g: usize, site: &'static str, slot: usize, payload: i32, val: i32) -> Result<i32, i32> {
        gate(g).await;
        vrt::ev(site, &val);
        vrt::st_r(slot, payload, val)
    }
    /// a step written `~-> gvia::<B, K, _>`: takes the previous step's FUTURE, awaits it, then pends at the gate of (B, K)
    pub async fn gvia<const B: usize, const K: usize, F: Future<Output = i32>>(f: F) -> i32 {
        let v = f.await + 1;
        gate(B * 4 + K).await;
        vrt::ev(&format!("{}.{}.f", B, K), &v);
        vrt::st(B * 4 + K, v)
    }
    /// two pending points in one branch-step
    pub async fn gated2(g: usize, g2: usize, site: &'static str, slot: usize, val: i32) -> i32 {
        gate(g).await;
        gate(g2).await;
        vrt::ev(site, &val);
        vrt::st(slot, val)
    }

    pub struct AProg {
        pub id: &'static str,
        pub r: fn() -> String,
        pub mk: fn() -> Root,
        /// all gate ids of the program
        pub gates: &'static [usize],
        /// (gate, branch, step): the gate a branch must pass (last) in a step — used by the progress invariant
        pub gate_of: &'static [(usize, usize, usize)],
        pub depths: &'static [usize],
        pub rows: &'static [&'static [i64]],
        pub sub: &'static [usize],
        pub panics: &'static [usize],
        pub maxd: usize,
        pub spurious: usize,
        pub cap: u64,
        /// explicit-state pruning on the canonical state hash (false: every decision sequence, stateless)
        pub prune: bool,
        /// also run the unpruned exploration of the fault-free row and require the same states and outcomes
        pub crosscheck: bool,
    }

    fn proj(log: &[String]) -> BTreeMap<String, Vec<String>> {
        let mut m: BTreeMap<String, Vec<String>> = BTreeMap::new();
        for e in log {
            let key = e.split('.').next().unwrap_or("").to_string();
            m.entry(key).or_default().push(e.clone());
        }
        m
    }
    fn step_of(site: &str) -> Option<usize> {
        let site = site.split(':').next().unwrap_or("");
        let mut it = site.split('.');
        it.next()?;
        it.next()?.parse().ok()
    }
    fn value_in(mv: &str, rv: &str) -> bool {
        if let Some(rest) = rv.strip_prefix("ANYOF[") {
            let rest = rest.strip_suffix(']').unwrap_or(rest);
            rest.split('|').any(|a| a == mv)
        } else {
            mv == rv
        }
    }

    pub fn drive(progs: &[AProg]) {
        std::panic::set_hook(Box::new(|_| {}));
        let shard: usize = std::env::var("VS_SHARD").ok().and_then(|s| s.parse().ok()).unwrap_or(0);
        let nshards: usize = std::env::var("VS_NSHARDS").ok().and_then(|s| s.parse().ok()).unwrap_or(1);
        let only = std::env::var("VS_ONLY").ok();
        use std::io::Write;
        let stdout = std::io::stdout();
        let mut out = stdout.lock();
        let mut unit = 0usize;
        for p in progs {
            if let Some(o) = &only {
                if o != p.id {
                    continue;
                }
            }
            unit += 1;
            if (unit - 1) % nshards != shard {
                continue;
            }
            let t0 = std::time::Instant::now();
            let (mut executions, mut decisions, mut states, mut nrows) = (0u64, 0u64, 0usize, 0usize);
            let mut capped = false;
            let mut viols: Vec<String> = Vec::new();
            let mut nviol = 0u64;
            let mut outcomes: BTreeSet<(Option<String>, Vec<String>)> = BTreeSet::new();
            let mut max_logs = 0usize;
            let mut sample = String::new();
            let mut returned: BTreeSet<String> = BTreeSet::new();
            let mut values: BTreeSet<String> = BTreeSet::new();
            let (mut crosschecks, mut unpruned_executions, mut crosscheck_ok) = (0u64, 0u64, true);
            // laziness: construct and drop without polling — nothing may be evaluated
            {
                vrt::set_inp(&[]);
                vrt::take_log();
                let f = catch_unwind(AssertUnwindSafe(p.mk));
                let l1 = vrt::log_len();
                let constructed = f.is_ok();
                drop(f);
                let l2 = vrt::take_log();
                if !constructed || l1 != 0 || !l2.is_empty() {
                    nviol += 1;
                    viols.push(format!(
                        "{{\"row\":[],\"schedule\":[],\"what\":{},\"value\":\"\",\"reference_value\":\"\",\"log\":{},\"reference_log\":[],\"decisions\":[],\"replay_identical\":true}}",
                        jesc(if !constructed { "constructing the future (outside any runtime, never polled) panicked" } else { "the future evaluated user expressions although it was never polled (constructed, then dropped)" }),
                        jlist(&l2)
                    ));
                }
            }
            for base in p.rows {
                for mask in 0u64..(1u64 << p.sub.len()) {
                    let mut row: Vec<i64> = base.to_vec();
                    let need = p.sub.iter().chain(p.panics.iter()).max().map(|m| m + 1).unwrap_or(0);
                    if row.len() < need {
                        row.resize(need, 0);
                    }
                    for (i, s) in p.sub.iter().enumerate() {
                        if mask >> i & 1 == 1 {
                            row[*s] = 1;
                        }
                    }
                    let mut variants: Vec<(Vec<i64>, Option<usize>, usize)> = vec![(row.clone(), None, 0)];
                    if mask == 0 && p.id.contains("spawn") {
                        // the same fault-free row with the runtime answering "current-thread" to a flavour query
                        variants.push((row.clone(), None, 1));
                    }
                    for &ps in p.panics {
                        if row[ps] == 0 {
                            let mut r2 = row.clone();
                            r2[ps] = 2;
                            variants.push((r2, Some(ps % p.maxd), 0));
                        }
                    }
                    for (row, panic_step, flavor) in variants {
                        FLAVOR.store(flavor, SeqCst);
                        nrows += 1;
                        vrt::set_inp(&row);
                        let refv = vrt::run1(p.r);
                        let panic_step = if refv.0 == "PANIC" { panic_step } else { None };
                        let faulty = row.iter().take(p.maxd * 16).any(|&x| x != 0) && (mask != 0 || panic_step.is_some());
                        let failing = refv.0.starts_with("ANYOF[") || refv.0.starts_with("Err") || refv.0.starts_with("None");
                        vrt::set_inp(&row);
                        let depths = p.depths;
                        let gate_of = p.gate_of;
                        let pid = p.id;
                        // how many events the reference logs for each (branch, step) behind the pending points: a branch whose pending
                        // points are released runs its step to the END while siblings are still pending
                        let mut ref_counts: BTreeMap<(usize, usize), usize> = BTreeMap::new();
                        for e in refv.1.iter() {
                            let site = e.split(':').next().unwrap_or("");
                            let f: Vec<&str> = site.split('.').collect();
                            if f.len() >= 3 && !f[2].starts_with('o') {
                                if let (Ok(b), Ok(k)) = (f[0].parse::<usize>(), f[1].parse::<usize>()) {
                                    *ref_counts.entry((b, k)).or_insert(0) += 1;
                                }
                            }
                        }
                        let inv = move |rel: &BTreeSet<usize>, arr: &BTreeSet<usize>, log: &[String]| -> Option<String> {
                            if faulty || gate_of.is_empty() {
                                return None;
                            }
                            if arr.contains(&usize::MAX) {
                                // root-pending mode (task-spawning macros only): a branch of a step with >= 2 active branches that was parked
                                // at a pending point, has been released (woken) and still made no progress although every task is idle —
                                // it is not a task of its own: it only moves when the macro's future is polled
                                if !pid.contains("spawn") {
                                    return None;
                                }
                                let k = gate_of.iter().filter(|(g, _, _)| !rel.contains(g)).map(|(_, _, k)| *k).min().unwrap_or(usize::MAX);
                                for (g, b, kk) in gate_of.iter() {
                                    if *kk > k || depths.iter().filter(|d| **d > *kk).count() < 2 {
                                        continue;
                                    }
                                    let gs: Vec<usize> = gate_of.iter().filter(|(_, bb, k2)| bb == b && k2 == kk).map(|(g, _, _)| *g).collect();
                                    if gs.iter().any(|g| *g >= 32) || !gs.iter().all(|g| rel.contains(g)) || !arr.contains(g) {
                                        continue;
                                    }
                                    let passed = log.iter().any(|e| e.starts_with(&format!("{}.{}.", b, kk)) && !e.starts_with(&format!("{}.{}.o", b, kk)));
                                    if !passed {
                                        return Some(format!(
                                            "every task is idle and the macro's future has not been polled since: branch {} of step {} was parked at a pending point that has been released, but made no progress — the branch is not a task of its own (it depends on the parent being polled)",
                                            b, kk
                                        ));
                                    }
                                }
                                return None;
                            }
                            // current step = smallest step with an unreleased gate
                            let k = gate_of.iter().filter(|(g, _, _)| !rel.contains(g)).map(|(_, _, k)| *k).min()?;
                            // every gate of every earlier step must be released (by construction), so step k has started
                            if gate_of.iter().any(|(g, _, kk)| *kk < k && !rel.contains(g)) {
                                return None;
                            }
                            for (b, d) in depths.iter().enumerate() {
                                if *d <= k {
                                    continue;
                                }
                                let gs: Vec<usize> = gate_of.iter().filter(|(_, bb, kk)| *bb == b && *kk == k).map(|(g, _, _)| *g).collect();
                                if gs.is_empty() {
                                    continue;
                                }
                                // progress = an event of the branch's step behind its pending points (the `.o` operand event of
                                // step 0 is logged when the branch is built, before any pending point)
                                let done = log.iter().filter(|e| e.starts_with(&format!("{}.{}.", b, k)) && !e.starts_with(&format!("{}.{}.o", b, k))).count();
                                let passed = done > 0;
                                if gs.iter().all(|g| rel.contains(g)) {
                                    if !passed {
                                        return Some(format!(
                                            "quiescent state: branch {} is ready in step {} (its pending points are released) but made no progress while a sibling is pending — a pending branch blocks a ready sibling or a wake-up was lost",
                                            b, k
                                        ));
                                    }
                                    let want = ref_counts.get(&(b, k)).copied().unwrap_or(0);
                                    if done < want {
                                        return Some(format!(
                                            "quiescent state: branch {} is ready in step {} (its pending points are released) but ran only {} of the {} expressions of that step while a sibling is pending — the rest of its step waits for the sibling",
                                            b, k, done, want
                                        ));
                                    }
                                } else if !passed && !gs.iter().any(|g| arr.contains(g)) {
                                    return Some(format!(
                                        "quiescent state: branch {} of step {} was never polled up to its pending point (no waker registered) although every earlier step is complete — branches of a step do not run concurrently",
                                        b, k
                                    ));
                                }
                            }
                            None
                        };
                        let mut first_bad: Option<(String, Vec<usize>, Exec)> = None;
                        if p.crosscheck && p.prune && mask == 0 && panic_step.is_none() && flavor == 0 {
                            let mut o1: BTreeSet<(Option<String>, Vec<String>)> = BTreeSet::new();
                            let mut o2 = o1.clone();
                            let a = explore(p.mk, p.gates, p.spurious, p.cap, true, &inv, |ex, _| {
                                o1.insert((ex.value.clone(), ex.log.clone()));
                            });
                            let b = explore(p.mk, p.gates, p.spurious, p.cap, false, &inv, |ex, _| {
                                o2.insert((ex.value.clone(), ex.log.clone()));
                            });
                            crosschecks += 1;
                            unpruned_executions += b.executions;
                            if a.states != b.states || o1 != o2 || a.capped || b.capped {
                                crosscheck_ok = false;
                            }
                        }
                        let st = explore(p.mk, p.gates, p.spurious, p.cap, p.prune, &inv, |ex, script| {
                            outcomes.insert((ex.value.clone(), ex.log.clone()));
                            values.insert(format!("{:?}|{:?}", row, ex.value));
                            let mut msg: Option<String> = None;
                            if ex.divergence {
                                msg = Some("MACHINERY: divergence while replaying a decision prefix".into());
                            } else if !ex.lazy_ok {
                                msg = Some("the async macro evaluated something before its future was first polled (construction is not lazy)".into());
                            } else if ex.hang {
                                msg = Some("hang: every pending point is released and nothing is runnable, but the macro's future has not completed (lost wake-up / order-dependent hang)".into());
                            } else if let Some(iv) = &ex.invariant_violation {
                                msg = Some(iv.clone());
                            } else if ex.unwatched_completion && !faulty {
                                msg = Some("a spawned branch completed while the macro's future was pending in its join and had no waker registered for that branch: the wake-up of a branch does not reach the macro's future (handles awaited one after another)".into());
                            } else if !vrt::steps_monotone(&ex.log) {
                                msg = Some("an event of an earlier step was observed after an event of a later step (step barrier broken)".into());
                            } else if let Some(k) = panic_step {
                                // async try macros may return the failure of a sibling that fails in the same (or an earlier) step
                                // before the panicking branch reaches its panic (DESIGN §3.7): then no panic is owed
                                let min_fail_step = row.iter().enumerate().filter(|(i, &x)| x == 1 && *i < 40).map(|(i, _)| i % p.maxd).min();
                                // a panic in an OPERAND expression of step k (input slots >= 40) is raised when step k starts, before any
                                // branch of step k can fail: only a failure in an EARLIER step makes it unreachable
                                let operand_panic = row.iter().enumerate().any(|(i, &x)| x == 2 && i >= 40);
                                let early_failure_allowed = min_fail_step.map(|f| if operand_panic { f < k } else { f <= k }).unwrap_or(false)
                                    && ex.value.as_deref().map(|v| v.starts_with("Err(") || v.starts_with("None")).unwrap_or(false);
                                if !ex.panicked && early_failure_allowed {
                                    // fine
                                } else if !ex.panicked {
                                    msg = Some(format!("a panic was injected in step {} but polling the macro's future never panicked (value {:?})", k, ex.value));
                                } else if let Some(e) = ex.log.iter().find(|e| step_of(e).map(|s| s > k && s < 90).unwrap_or(false)) {
                                    msg = Some(format!("event {} of a later step ran although a panic was injected in step {}", e, k));
                                }
                            } else if ex.panicked {
                                msg = Some("polling the macro's future panicked although no panic was injected".into());
                            } else {
                                let v = ex.value.clone().unwrap_or_default();
                                if !value_in(&v, &refv.0) {
                                    msg = Some(format!("result differs from the reference: macro {} / reference {}", v, refv.0));
                                } else if failing {
                                    returned.insert(v.clone());
                                    let r = proj(&refv.1);
                                    let okp = proj(&ex.log).into_iter().all(|(k, v)| r.get(&k).map(|rv| rv.len() >= v.len() && rv[..v.len()] == v[..]).unwrap_or(false));
                                    if !okp {
                                        msg = Some("per-branch event sequences are not prefixes of the reference's (something ran that must not run after a failed step)".into());
                                    }
                                } else if proj(&ex.log) != proj(&refv.1) {
                                    msg = Some("per-branch event sequences differ from the reference".into());
                                }
                            }
                            if let Some(m) = msg {
                                let m = if flavor == 1 { format!("{} [the runtime answers a flavour query with current-thread]", m) } else { m };
                                nviol += 1;
                                if first_bad.is_none() {
                                    first_bad = Some((m, script.to_vec(), ex.clone()));
                                }
                            }
                        });
                        executions += st.executions;
                        decisions += st.decisions;
                        states += st.states;
                        capped |= st.capped;
                        max_logs = max_logs.max(st.distinct_logs);
                        if sample.is_empty() {
                            let ex = run_one(p.mk, p.gates, p.spurious, &st.last_script, &inv);
                            sample = format!(
                                "{{\"row\":{:?},\"schedule\":{:?},\"value\":{},\"decisions\":{},\"log\":{}}}",
                                row,
                                st.last_script,
                                jesc(&format!("{:?}", ex.value)),
                                jesc(&format!("{:?}", ex.decisions)),
                                jlist(&ex.log)
                            );
                        }
                        if let Some((msg, script, ex)) = first_bad {
                            vrt::set_inp(&row);
                            let again = run_one(p.mk, p.gates, p.spurious, &script, &inv);
                            let same = again.log == ex.log && again.value == ex.value && again.hang == ex.hang && again.panicked == ex.panicked;
                            if viols.len() < 3 {
                                viols.push(format!(
                                    "{{\"row\":{:?},\"schedule\":{:?},\"what\":{},\"value\":{},\"reference_value\":{},\"log\":{},\"reference_log\":{},\"decisions\":{},\"replay_identical\":{}}}",
                                    row,
                                    script,
                                    jesc(&msg),
                                    jesc(&format!("{:?}", ex.value)),
                                    jesc(&refv.0),
                                    jlist(&ex.log),
                                    jlist(&refv.1),
                                    jesc(&format!("{:?}", ex.decisions)),
                                    same
                                ));
                            }
                        }
                    }
                }
            }
            writeln!(
                out,
                "{{\"id\":{},\"rows\":{},\"executions\":{},\"decisions\":{},\"states\":{},\"outcomes\":{},\"max_logs_per_row\":{},\"capped\":{},\"ohash\":\"{:x}\",\"nviol\":{},\"viols\":[{}],\"sample\":{},\"failures_returned\":{},\"vhash\":\"{:x}\",\"nvalues\":{},\"crosschecks\":{},\"crosscheck_ok\":{},\"unpruned_executions\":{},\"ms\":{}}}",
                jesc(p.id),
                nrows,
                executions,
                decisions,
                states,
                outcomes.len(),
                max_logs,
                capped,
                {
                    use std::hash::{Hash, Hasher};
                    let mut h = std::collections::hash_map::DefaultHasher::new();
                    outcomes.hash(&mut h);
                    h.finish()
                },
                nviol,
                viols.join(","),
                if sample.is_empty() { "null".to_string() } else { sample },
                returned.len(),
                {
                    use std::hash::{Hash, Hasher};
                    let mut h = std::collections::hash_map::DefaultHasher::new();
                    values.hash(&mut h);
                    h.finish()
                },
                values.len(),
                crosschecks,
                crosscheck_ok,
                unpruned_executions,
                t0.elapsed().as_millis()
            )
            .unwrap();
            out.flush().unwrap();
        }
    }
}
