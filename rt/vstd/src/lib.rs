//! A fake `std`: everything of the real std, except `thread::{Builder, JoinHandle, spawn}` which go
//! through the baton scheduler. A harness crate that starts with
//! `#![no_std] extern crate vstd as std; use std::prelude::v1::*;` makes the UNMODIFIED macro output's
//! `::std::thread::Builder` / `::std::thread::current()` resolve here.
pub use ::std::*;

pub mod thread {
    pub use ::std::thread::{
        available_parallelism, current, panicking, park, park_timeout, scope, sleep, yield_now, AccessError, LocalKey, Result, Scope, ScopedJoinHandle, Thread,
        ThreadId,
    };
    use ::std::panic::{catch_unwind, resume_unwind, AssertUnwindSafe};

    pub struct Builder(::std::thread::Builder, Option<String>);
    pub struct JoinHandle<T> {
        inner: ::std::thread::JoinHandle<T>,
        idx: usize,
    }
    impl Builder {
        pub fn new() -> Self {
            Builder(::std::thread::Builder::new(), None)
        }
        pub fn name(self, n: String) -> Self {
            Builder(self.0.name(n.clone()), Some(n))
        }
        pub fn stack_size(self, s: usize) -> Self {
            Builder(self.0.stack_size(s), self.1)
        }
        pub fn spawn<F, T>(self, f: F) -> ::std::io::Result<JoinHandle<T>>
        where
            F: FnOnce() -> T + Send + 'static,
            T: Send + 'static,
        {
            let idx = vsched::register(self.1.clone());
            let inner = self.0.spawn(move || {
                let _g = vsched::OsGuard::new();
                vsched::enter(idx);
                let r = catch_unwind(AssertUnwindSafe(f));
                if let Err(p) = &r {
                    if p.is::<vsched::Poison>() {
                        resume_unwind(Box::new(vsched::Poison));
                    }
                }
                vsched::finish(idx, r.is_err());
                match r {
                    Ok(v) => v,
                    Err(p) => resume_unwind(p),
                }
            })?;
            Ok(JoinHandle { inner, idx })
        }
    }
    impl<T> JoinHandle<T> {
        pub fn join(self) -> ::std::thread::Result<T> {
            vsched::block_join(self.idx);
            self.inner.join()
        }
        pub fn thread(&self) -> &Thread {
            self.inner.thread()
        }
        pub fn is_finished(&self) -> bool {
            self.inner.is_finished()
        }
    }
    pub fn spawn<F, T>(f: F) -> JoinHandle<T>
    where
        F: FnOnce() -> T + Send + 'static,
        T: Send + 'static,
    {
        Builder::new().spawn(f).expect("failed to spawn thread")
    }
}
