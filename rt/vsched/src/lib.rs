//! E3-T: baton-passing scheduler over real OS threads + deviation-bounded DFS explorer (DESIGN §2.5).
//!
//! Exactly one registered thread runs at a time. Decisions are taken only immediately before a
//! *visible operation* (vrt::ev/ev0/lg/lgf via the pre-hook, `barrier`): after every decision and every
//! forced switch, each enabled thread that is not yet parked in front of a visible operation is run (in
//! index order) until it parks, blocks or finishes; a decision then picks which parked thread performs its
//! operation. An execution is therefore one order of visible operations; the explorer enumerates all of
//! them (optionally under a preemption bound) by re-execution from a choice prefix.
use std::cell::Cell;
use std::collections::{BTreeMap, BTreeSet};
use std::panic::{catch_unwind, resume_unwind, AssertUnwindSafe};
use std::sync::atomic::{AtomicUsize, Ordering::SeqCst};
use std::sync::{Condvar, Mutex};
use std::thread::ThreadId;

pub struct Poison;

#[derive(Clone, Debug, PartialEq)]
enum St {
    Runnable,
    Parked,
    BlockedJoin(usize),
    BlockedBarrier(u32),
    Finished,
}

struct Th {
    st: St,
    name: Option<String>,
    real_name: Option<String>,
    tid: Option<ThreadId>,
    parent: usize,
    site: String,
    panicked: bool,
}

/// One visible operation as it was performed.
#[derive(Clone, Debug)]
pub struct OpRec {
    pub thread: usize,
    pub site: String,
    /// name reported by the real `std::thread::current().name()` on that thread
    pub name: Option<String>,
    /// index of the thread's ThreadId among the distinct ids seen in this execution
    pub tid: usize,
    /// threads (indices) registered and not yet finished when the operation was performed, excluding the performer
    pub live_others: Vec<usize>,
}

struct World {
    threads: Vec<Th>,
    current: usize,
    script: Vec<usize>,
    pos: usize,
    trace: Vec<(usize, usize, bool)>, // (options, chosen, current_was_option)
    deadlock: bool,
    blocked_at_deadlock: Vec<String>,
    done: bool,
    ops: Vec<OpRec>,
    barriers: BTreeMap<u32, (usize, usize)>, // id -> (needed, arrived)
    tids: Vec<ThreadId>,
    divergence: bool,
    /// (joiner, target) pairs of every join so far
    joined: Vec<(usize, usize)>,
    /// a thread started WAITING for a child after another child it had already joined had panicked
    waited_after_panic: Option<(usize, usize, usize)>,
}

/// scheduler events so far (a stall = no event for STALL_MS while the baton holder neither parks, blocks nor finishes)
static PROGRESS: std::sync::atomic::AtomicU64 = std::sync::atomic::AtomicU64::new(0);
/// set when the baton holder stalled: it is blocked OUTSIDE the scheduler (a real lock held by a parked thread). The rest of this
/// execution runs free (every thread resumes, visible operations no longer park) and the execution is flagged `uncontrolled`.
static FREERUN: std::sync::atomic::AtomicBool = std::sync::atomic::AtomicBool::new(false);
static STALL_MS: std::sync::atomic::AtomicU64 = std::sync::atomic::AtomicU64::new(2000);
pub static UNCONTROLLED: std::sync::atomic::AtomicU64 = std::sync::atomic::AtomicU64::new(0);
static W: Mutex<Option<World>> = Mutex::new(None);
static CV: Condvar = Condvar::new();
static OS_LIVE: AtomicUsize = AtomicUsize::new(0);
thread_local! { static ME: Cell<Option<usize>> = Cell::new(None); }

pub struct OsGuard;
impl OsGuard {
    pub fn new() -> Self {
        OS_LIVE.fetch_add(1, SeqCst);
        OsGuard
    }
}
impl Drop for OsGuard {
    fn drop(&mut self) {
        ME.with(|m| m.set(None));
        OS_LIVE.fetch_sub(1, SeqCst);
        let _g = W.lock().unwrap_or_else(|e| e.into_inner());
        CV.notify_all();
    }
}

fn lock() -> std::sync::MutexGuard<'static, Option<World>> {
    W.lock().unwrap_or_else(|e| e.into_inner())
}

fn enabled_unparked(w: &mut World) -> Option<usize> {
    for i in 0..w.threads.len() {
        let st = w.threads[i].st.clone();
        match st {
            St::Runnable => return Some(i),
            St::BlockedJoin(u) => {
                if w.threads[u].st == St::Finished {
                    w.threads[i].st = St::Runnable;
                    return Some(i);
                }
            }
            St::BlockedBarrier(b) => {
                let (needed, arrived) = w.barriers[&b];
                if arrived >= needed {
                    w.threads[i].st = St::Runnable;
                    return Some(i);
                }
            }
            _ => {}
        }
    }
    None
}

/// Called by the baton holder when it parks, blocks or finishes: choose who runs next.
fn reschedule(w: &mut World) {
    PROGRESS.fetch_add(1, SeqCst);
    if FREERUN.load(SeqCst) {
        if w.threads[0].st == St::Finished {
            w.done = true;
        }
        return;
    }
    if let Some(i) = enabled_unparked(w) {
        w.current = i;
        return;
    }
    let parked: Vec<usize> = (0..w.threads.len()).filter(|&i| w.threads[i].st == St::Parked).collect();
    if parked.is_empty() {
        if w.threads.iter().all(|t| t.st == St::Finished) {
            w.done = true;
        } else {
            w.deadlock = true;
            w.blocked_at_deadlock = w
                .threads
                .iter()
                .enumerate()
                .filter(|(_, t)| t.st != St::Finished)
                .map(|(i, t)| format!("t{}:{:?}", i, t.st))
                .collect();
        }
        return;
    }
    let cur_opt = parked.contains(&w.current);
    let mut order: Vec<usize> = Vec::new();
    if cur_opt {
        order.push(w.current);
    }
    for &p in &parked {
        if p != w.current {
            order.push(p);
        }
    }
    let choice = if order.len() > 1 {
        let c = if w.pos < w.script.len() {
            let c = w.script[w.pos];
            if c >= order.len() {
                w.divergence = true;
                0
            } else {
                c
            }
        } else {
            0
        };
        w.pos += 1;
        w.trace.push((order.len(), c, cur_opt));
        c
    } else {
        0
    };
    let t = order[choice];
    w.threads[t].st = St::Runnable;
    w.current = t;
    // record the operation now: it is performed next, before anything else runs
    let live_others: Vec<usize> = (0..w.threads.len()).filter(|&i| i != t && w.threads[i].st != St::Finished).collect();
    let tid = w.threads[t].tid.unwrap();
    let tix = match w.tids.iter().position(|x| *x == tid) {
        Some(i) => i,
        None => {
            w.tids.push(tid);
            w.tids.len() - 1
        }
    };
    let rec = OpRec { thread: t, site: w.threads[t].site.clone(), name: w.threads[t].real_name.clone(), tid: tix, live_others };
    w.ops.push(rec);
}

fn wait_turn(me: usize, mut g: std::sync::MutexGuard<'static, Option<World>>) {
    let mut last = PROGRESS.load(SeqCst);
    let mut stalled = 0u64;
    loop {
        {
            if FREERUN.load(SeqCst) {
                return;
            }
            let w = g.as_mut().expect("scheduler world missing");
            if w.deadlock {
                drop(g);
                resume_unwind(Box::new(Poison));
            }
            if w.current == me && w.threads[me].st == St::Runnable && !w.done {
                return;
            }
        }
        let (g2, to) = CV.wait_timeout(g, std::time::Duration::from_millis(25)).unwrap_or_else(|e| e.into_inner());
        g = g2;
        if to.timed_out() {
            let p = PROGRESS.load(SeqCst);
            if p == last {
                stalled += 25;
            } else {
                last = p;
                stalled = 0;
            }
            if stalled >= STALL_MS.load(SeqCst) {
                // the baton holder is blocked outside the scheduler: give up control of this execution, never hang
                if !FREERUN.swap(true, SeqCst) {
                    UNCONTROLLED.fetch_add(1, SeqCst);
                    STALL_MS.store(100, SeqCst);
                }
                CV.notify_all();
                return;
            }
        }
    }
}

/// Register a thread that is about to be spawned (called on the parent, which keeps running).
pub fn register(name: Option<String>) -> usize {
    let me = ME.with(|m| m.get());
    let mut g = lock();
    match (g.as_mut(), me) {
        (Some(w), Some(me)) => {
            w.threads.push(Th { st: St::Runnable, name, real_name: None, tid: None, parent: me, site: String::new(), panicked: false });
            w.threads.len() - 1
        }
        _ => usize::MAX, // not under the scheduler: free-running
    }
}

/// First thing a spawned thread does: wait for the baton.
pub fn enter(idx: usize) {
    if idx == usize::MAX {
        return;
    }
    ME.with(|m| m.set(Some(idx)));
    let mut g = lock();
    {
        let w = g.as_mut().unwrap();
        w.threads[idx].tid = Some(std::thread::current().id());
        w.threads[idx].real_name = std::thread::current().name().map(|s| s.to_string());
    }
    CV.notify_all();
    wait_turn(idx, g);
}

pub fn finish(idx: usize, panicked: bool) {
    if idx == usize::MAX {
        return;
    }
    let mut g = lock();
    if let Some(w) = g.as_mut() {
        w.threads[idx].st = St::Finished;
        w.threads[idx].panicked = panicked;
        reschedule(w);
    }
    CV.notify_all();
}

pub fn block_join(target: usize) {
    let me = match ME.with(|m| m.get()) {
        Some(m) if target != usize::MAX => m,
        _ => return,
    };
    let mut g = lock();
    {
        let w = g.as_mut().unwrap();
        let earlier_panicked = w.joined.iter().find(|(j, t)| *j == me && *t != target && w.threads[*t].st == St::Finished && w.threads[*t].panicked).map(|(_, t)| *t);
        w.joined.push((me, target));
        if w.threads[target].st == St::Finished || FREERUN.load(SeqCst) {
            return;
        }
        if let Some(t) = earlier_panicked {
            if w.waited_after_panic.is_none() {
                w.waited_after_panic = Some((me, target, t));
            }
        }
        w.threads[me].st = St::BlockedJoin(target);
        reschedule(w);
    }
    CV.notify_all();
    wait_turn(me, g);
}

/// A visible operation: park, let the scheduler decide, return when chosen.
pub fn visible(site: &str) {
    let me = match ME.with(|m| m.get()) {
        Some(m) => m,
        None => return,
    };
    let mut g = lock();
    {
        let w = match g.as_mut() {
            Some(w) => w,
            None => return,
        };
        if FREERUN.load(SeqCst) {
            return;
        }
        w.threads[me].st = St::Parked;
        w.threads[me].site = site.to_string();
        reschedule(w);
    }
    CV.notify_all();
    wait_turn(me, g);
}

/// Blocking rendezvous: returns when `needed` threads have arrived at barrier `id`. Not a decision point.
pub fn barrier(id: u32, needed: usize) {
    let me = match ME.with(|m| m.get()) {
        Some(m) => m,
        None => return,
    };
    let mut g = lock();
    {
        let w = g.as_mut().unwrap();
        let e = w.barriers.entry(id).or_insert((needed, 0));
        e.1 += 1;
        if e.1 >= e.0 || FREERUN.load(SeqCst) {
            return;
        }
        w.threads[me].st = St::BlockedBarrier(id);
        reschedule(w);
    }
    CV.notify_all();
    wait_turn(me, g);
}

/// index of the calling thread under the scheduler (0 = model main), None when free-running
pub fn me() -> Option<usize> {
    ME.with(|m| m.get())
}

// ---------------------------------------------------------------------------------------------
// one execution
// ---------------------------------------------------------------------------------------------
#[derive(Clone, Debug)]
pub struct Exec {
    pub value: String, // Debug of the result, or "PANIC"
    pub log: Vec<String>,
    pub ops: Vec<OpRec>,
    pub trace: Vec<(usize, usize, bool)>,
    pub deadlock: bool,
    pub blocked: Vec<String>,
    pub threads: usize,
    pub thread_names: Vec<Option<String>>,
    pub thread_parents: Vec<usize>,
    pub thread_panicked: Vec<bool>,
    pub divergence: bool,
    /// (joiner, awaited thread, panicked thread): the joiner started waiting for a thread although a thread it had already joined
    /// had panicked
    pub waited_after_panic: Option<(usize, usize, usize)>,
    /// the baton holder stalled outside the scheduler (a real lock held by a parked thread): the rest of the execution ran free
    pub uncontrolled: bool,
}

fn hook(site: &str) {
    visible(site);
}

/// Run `f` as model main on a thread named `caller` under the given choice script.
pub fn run_one(f: fn() -> String, caller: Option<&str>, script: &[usize]) -> Exec {
    // wait until every OS thread of the previous execution is gone
    while OS_LIVE.load(SeqCst) != 0 {
        std::thread::yield_now();
    }
    vrt::take_log();
    vrt::tok_reset();
    FREERUN.store(false, SeqCst);
    {
        let mut g = lock();
        *g = Some(World {
            threads: vec![Th { st: St::Runnable, name: caller.map(|s| s.to_string()), real_name: None, tid: None, parent: 0, site: String::new(), panicked: false }],
            current: 0,
            script: script.to_vec(),
            pos: 0,
            trace: Vec::new(),
            deadlock: false,
            blocked_at_deadlock: Vec::new(),
            done: false,
            ops: Vec::new(),
            barriers: BTreeMap::new(),
            tids: Vec::new(),
            divergence: false,
            joined: Vec::new(),
            waited_after_panic: None,
        });
    }
    vrt::set_pre_hook(Some(hook));
    let mut b = std::thread::Builder::new();
    if let Some(c) = caller {
        b = b.name(c.to_string());
    }
    let h = b
        .spawn(move || {
            let _g = OsGuard::new();
            enter(0);
            let r = catch_unwind(AssertUnwindSafe(f));
            let poisoned = matches!(&r, Err(p) if p.is::<Poison>());
            if !poisoned {
                finish(0, r.is_err());
            }
            match r {
                Ok(s) => s,
                Err(_) => "PANIC".to_string(),
            }
        })
        .unwrap();
    // wait for completion or deadlock
    {
        let mut g = lock();
        loop {
            let w = g.as_ref().unwrap();
            if w.done || w.deadlock {
                break;
            }
            g = CV.wait(g).unwrap_or_else(|e| e.into_inner());
        }
    }
    CV.notify_all();
    let value = h.join().unwrap_or_else(|_| "PANIC".to_string());
    while OS_LIVE.load(SeqCst) != 0 {
        CV.notify_all();
        std::thread::yield_now();
    }
    vrt::set_pre_hook(None);
    let w = lock().take().unwrap();
    Exec {
        value,
        log: vrt::take_log(),
        ops: w.ops,
        trace: w.trace,
        deadlock: w.deadlock,
        blocked: w.blocked_at_deadlock,
        threads: w.threads.len(),
        thread_names: w.threads.iter().map(|t| t.real_name.clone()).collect(),
        thread_parents: w.threads.iter().map(|t| t.parent).collect(),
        thread_panicked: w.threads.iter().map(|t| t.panicked).collect(),
        divergence: w.divergence,
        waited_after_panic: w.waited_after_panic,
        uncontrolled: FREERUN.load(SeqCst),
    }
}

// ---------------------------------------------------------------------------------------------
// explorer
// ---------------------------------------------------------------------------------------------
pub struct Stats {
    pub executions: u64,
    pub decisions: u64,
    pub max_trace: usize,
    pub distinct_logs: usize,
    pub distinct_op_orders: usize,
    pub states: usize,
    pub capped: bool,
    pub first_script: Vec<usize>,
    pub last_script: Vec<usize>,
}

/// Explore every order of visible operations (preemption bound `pbound`, None = unbounded), calling `check`
/// on every complete execution. `cap` bounds the number of executions (reported in Stats.capped).
pub fn explore(
    f: fn() -> String,
    caller: Option<&str>,
    pbound: Option<usize>,
    cap: u64,
    mut check: impl FnMut(&Exec, &[usize]),
) -> Stats {
    let mut stack: Vec<Vec<usize>> = vec![vec![]];
    let mut st = Stats {
        executions: 0,
        decisions: 0,
        max_trace: 0,
        distinct_logs: 0,
        distinct_op_orders: 0,
        states: 0,
        capped: false,
        first_script: vec![],
        last_script: vec![],
    };
    let mut logs: BTreeSet<Vec<String>> = BTreeSet::new();
    let mut orders: BTreeSet<Vec<(usize, String)>> = BTreeSet::new();
    let mut states: BTreeSet<Vec<(usize, String)>> = BTreeSet::new();
    while let Some(prefix) = stack.pop() {
        if st.executions >= cap {
            st.capped = true;
            break;
        }
        let ex = run_one(f, caller, &prefix);
        st.executions += 1;
        st.decisions += ex.trace.len() as u64;
        st.max_trace = st.max_trace.max(ex.trace.len());
        let script: Vec<usize> = ex.trace.iter().map(|t| t.1).collect();
        if st.executions == 1 {
            st.first_script = script.clone();
        }
        st.last_script = script.clone();
        check(&ex, &script);
        logs.insert(ex.log.clone());
        let order: Vec<(usize, String)> = ex.ops.iter().map(|o| (o.thread, o.site.clone())).collect();
        // states = distinct prefixes of operation orders (each prefix is one reachable scheduler state)
        for i in 0..=order.len() {
            states.insert(order[..i].to_vec());
        }
        orders.insert(order);
        // preemptions used before each decision
        let mut cost = 0usize;
        let mut costs = Vec::with_capacity(ex.trace.len());
        for (_, chosen, cur_opt) in &ex.trace {
            costs.push(cost);
            if *cur_opt && *chosen != 0 {
                cost += 1;
            }
        }
        for i in (prefix.len()..ex.trace.len()).rev() {
            let (n, _chosen, cur_opt) = ex.trace[i];
            for alt in 1..n {
                let c = costs[i] + if cur_opt { 1 } else { 0 };
                if let Some(b) = pbound {
                    if c > b {
                        continue;
                    }
                }
                let mut s: Vec<usize> = script[..i].to_vec();
                s.push(alt);
                stack.push(s);
            }
        }
    }
    st.distinct_logs = logs.len();
    st.distinct_op_orders = orders.len();
    st.states = states.len();
    st
}


// ---------------------------------------------------------------------------------------------
// generic harness: programs x fault rows x caller names x all schedules, judged against the reference
// ---------------------------------------------------------------------------------------------
pub mod harness {
    use super::*;
    use vrt::{jesc, jlist};

    pub struct TProg {
        pub id: &'static str,
        pub r: fn() -> String,
        pub m: fn() -> String,
        /// base rows
        pub rows: &'static [&'static [i64]],
        /// every subset of these slots set to 1 (failure) on top of each row
        pub sub: &'static [usize],
        /// every single one of these slots set to 2 (panic) on top of each (row, subset with that slot clear); plus no panic
        pub panics: &'static [usize],
        /// steps per branch of a flat profile program (empty: thread-identity checks are skipped)
        pub depths: &'static [usize],
        pub callers: &'static [Option<&'static str>],
        /// slot -> step mapping: step = slot % maxd
        pub maxd: usize,
        /// judge thread names / ids / liveness (C08)
        pub check_threads: bool,
        /// (site prefix, expected thread-name suffix): an operation whose site starts with the prefix must run on a
        /// thread named `<caller><suffix>` (caller unnamed: the suffix without its leading '_'; empty suffix = the caller itself)
        pub names: &'static [(&'static str, &'static str)],
        pub pbound: Option<usize>,
        pub cap: u64,
    }

    fn proj(log: &[String]) -> BTreeMap<String, Vec<String>> {
        let mut m: BTreeMap<String, Vec<String>> = BTreeMap::new();
        for e in log {
            let key = e.split('.').next().unwrap_or("").to_string();
            m.entry(key).or_default().push(e.clone());
        }
        m
    }
    fn step_of(site: &str) -> Option<usize> {
        let site = site.split(':').next().unwrap_or("");
        let mut it = site.split('.');
        it.next()?;
        it.next()?.parse().ok()
    }
    fn branch_of(site: &str) -> Option<usize> {
        site.split('.').next()?.parse().ok()
    }

    fn judge(p: &TProg, caller: Option<&str>, panic_step: Option<usize>, refv: &(String, Vec<String>, (usize, usize, Vec<i64>)), ex: &Exec) -> Option<String> {
        if ex.divergence {
            return Some("MACHINERY: divergence while replaying a schedule prefix".to_string());
        }
        if ex.deadlock {
            return Some(format!("deadlock: the caller is left blocked; blocked set {:?}", ex.blocked));
        }
        // the model main acts (captures, single-branch steps, handler, the end marker) only when no thread it spawned is alive
        if let Some(o) = ex.ops.iter().find(|o| o.thread == 0 && !o.live_others.is_empty()) {
            return Some(format!(
                "the caller performed `{}` while threads {:?} it spawned were still running (the caller must continue only after every thread of the step has finished)",
                o.site, o.live_others
            ));
        }
        if !vrt::steps_monotone(&ex.log) {
            return Some("an event of an earlier step was observed after an event of a later step (step barrier broken)".to_string());
        }
        if let Some((j, t, p_)) = ex.waited_after_panic {
            return Some(format!(
                "thread {} started waiting for thread {} although thread {}, which it had already joined, had panicked: the panic reaches the caller only after the siblings have finished (the caller is left blocked meanwhile)",
                j, t, p_
            ));
        }
        match panic_step {
            Some(k) => {
                if ex.value != "PANIC" {
                    return Some(format!("a panic was injected in step {} but the macro evaluation did not panic on the caller (value {})", k, ex.value));
                }
                if let Some(e) = ex.log.iter().find(|e| step_of(e).map(|s| s > k && s < 90).unwrap_or(false)) {
                    return Some(format!("event {} of a later step ran although a panic was injected in step {}", e, k));
                }
            }
            None => {
                if ex.value != refv.0 {
                    return Some(format!("result differs from the reference: macro {} / reference {}", ex.value, refv.0));
                }
                if proj(&ex.log) != proj(&refv.1) {
                    return Some("per-branch event sequences differ from the reference".to_string());
                }
            }
        }
        for o in &ex.ops {
            if let Some((_, suf)) = p.names.iter().find(|(pre, _)| o.site.starts_with(pre)) {
                let want: Option<String> = match caller {
                    Some(c) => Some(format!("{}{}", c, suf)),
                    None => {
                        if suf.is_empty() {
                            None
                        } else {
                            Some(suf.trim_start_matches('_').to_string())
                        }
                    }
                };
                if o.name != want {
                    return Some(format!("`{}` ran on a thread named {:?}, expected {:?}", o.site, o.name, want));
                }
            }
        }
        if p.check_threads && !p.depths.is_empty() {
            let active = |k: usize| p.depths.iter().filter(|&&d| d > k).count();
            let mut seen: BTreeMap<(usize, usize), (usize, usize)> = BTreeMap::new(); // (step, branch) -> (thread, tid)
            let mut started: BTreeSet<usize> = BTreeSet::new();
            for o in &ex.ops {
                let (b, k) = match (branch_of(&o.site), step_of(&o.site)) {
                    (Some(b), Some(k)) if k < 90 => (b, k),
                    _ => {
                        if o.thread == 0 && !o.live_others.is_empty() {
                            return Some(format!(
                                "the caller performed `{}` while threads {:?} of an earlier step were still running (caller must continue only after every thread of the step has finished)",
                                o.site, o.live_others
                            ));
                        }
                        continue;
                    }
                };
                if active(k) > 1 {
                    // "all alive at the same time, none waiting for a sibling": when the FIRST expression of the step runs no thread of
                    // the step can have finished yet (each runs at least one visible expression), so all of them must exist
                    if started.insert(k) && o.thread != 0 {
                        let live = o.live_others.iter().filter(|t| **t != 0).count() + 1;
                        if live != active(k) {
                            return Some(format!(
                                "when the first expression of step {} runs (branch {}), {} of the step's {} threads exist: the branches of a step are not alive at the same time (a thread is created only after a sibling has finished)",
                                k, b, live, active(k)
                            ));
                        }
                    }
                    let want = match caller {
                        Some(c) => format!("{}_join_{}", c, b),
                        None => format!("join_{}", b),
                    };
                    if o.thread == 0 {
                        return Some(format!("branch {} step {} ({} active branches) ran on the calling thread instead of its own thread", b, k, active(k)));
                    }
                    if o.name.as_deref() != Some(want.as_str()) {
                        return Some(format!("branch {} step {} ran on a thread named {:?}, expected {:?}", b, k, o.name, want));
                    }
                    if let Some(&(t0, tid0)) = seen.get(&(k, b)) {
                        if t0 != o.thread || tid0 != o.tid {
                            return Some(format!("branch {} step {} ran on two different threads", b, k));
                        }
                    }
                    for (&(k2, b2), &(t2, tid2)) in seen.iter() {
                        if k2 == k && b2 != b && (t2 == o.thread || tid2 == o.tid) {
                            return Some(format!("branches {} and {} of step {} share a thread", b, b2, k));
                        }
                    }
                    seen.insert((k, b), (o.thread, o.tid));
                } else {
                    if o.thread != 0 {
                        return Some(format!("branch {} is the only active branch of step {} but ran on thread {:?} instead of the calling thread", b, k, o.name));
                    }
                    if !o.live_others.is_empty() {
                        return Some(format!("the caller ran step {} of branch {} while threads {:?} of an earlier step were still running", k, b, o.live_others));
                    }
                }
            }
        }
        None
    }

    pub fn drive(progs: &[TProg]) {
        std::panic::set_hook(Box::new(|_| {}));
        let shard: usize = std::env::var("VS_SHARD").ok().and_then(|s| s.parse().ok()).unwrap_or(0);
        let nshards: usize = std::env::var("VS_NSHARDS").ok().and_then(|s| s.parse().ok()).unwrap_or(1);
        let only = std::env::var("VS_ONLY").ok();
        use std::io::Write;
        let stdout = std::io::stdout();
        let mut out = stdout.lock();
        // self-tests (every run): exhaustiveness on the multinomial program, determinism of replay
        if shard == 0 && only.is_none() {
            let st = explore(selftest_body, Some("main"), None, 1_000_000, |_, _| {});
            let a = run_one(selftest_body, Some("main"), &st.last_script);
            let b = run_one(selftest_body, Some("main"), &st.last_script);
            writeln!(
                out,
                "{{\"selftest\":true,\"executions\":{},\"distinct_orders\":{},\"expected\":90,\"replay_identical\":{}}}",
                st.executions,
                st.distinct_logs,
                a.log == b.log && a.trace == b.trace
            )
            .unwrap();
        }
        let mut unit = 0usize;
        for p in progs {
            if let Some(o) = &only {
                if o != p.id {
                    continue;
                }
            }
            unit += 1;
            if (unit - 1) % nshards != shard {
                continue;
            }
            let t0 = std::time::Instant::now();
            let mut executions = 0u64;
            let mut decisions = 0u64;
            let mut states = 0usize;
            let mut nrows = 0usize;
            let mut capped = false;
            let mut viols: Vec<String> = Vec::new();
            let mut nviol = 0u64;
            let mut outcomes: BTreeSet<(String, Vec<String>)> = BTreeSet::new();
            let mut max_orders_per_row = 0usize;
            let mut sample = String::new();
            let mut replay_ok = true;
            for base in p.rows {
                for mask in 0u64..(1u64 << p.sub.len()) {
                    let mut row: Vec<i64> = base.to_vec();
                    let need = p.sub.iter().chain(p.panics.iter()).max().map(|m| m + 1).unwrap_or(0);
                    if row.len() < need {
                        row.resize(need, 0);
                    }
                    for (i, s) in p.sub.iter().enumerate() {
                        if mask >> i & 1 == 1 {
                            row[*s] = 1;
                        }
                    }
                    let mut variants: Vec<(Vec<i64>, Option<usize>)> = vec![(row.clone(), None)];
                    for &ps in p.panics {
                        if row[ps] == 0 {
                            let mut r2 = row.clone();
                            r2[ps] = 2;
                            variants.push((r2, Some(ps % p.maxd)));
                        }
                    }
                    for (row, panic_step) in variants {
                        nrows += 1;
                        vrt::set_inp(&row);
                        let refv = vrt::run1(p.r);
                        // the injected panic only counts when control flow reaches it (the reference panics too)
                        let panic_step = if refv.0 == "PANIC" { panic_step } else { None };
                        for caller in p.callers {
                            vrt::set_inp(&row);
                            let mut first_bad: Option<(String, Vec<usize>, Exec)> = None;
                            let st = explore(p.m, *caller, p.pbound, p.cap, |ex, script| {
                                outcomes.insert((ex.value.clone(), ex.log.clone()));
                                if let Some(msg) = judge(p, *caller, panic_step, &refv, ex) {
                                    nviol += 1;
                                    if first_bad.is_none() {
                                        first_bad = Some((msg, script.to_vec(), ex.clone()));
                                    }
                                }
                            });
                            executions += st.executions;
                            decisions += st.decisions;
                            states += st.states;
                            capped |= st.capped;
                            max_orders_per_row = max_orders_per_row.max(st.distinct_op_orders);
                            if sample.is_empty() {
                                let ex = run_one(p.m, *caller, &st.last_script);
                                let ex2 = run_one(p.m, *caller, &st.last_script);
                                replay_ok &= ex.log == ex2.log && ex.value == ex2.value;
                                sample = format!(
                                    "{{\"row\":{:?},\"caller\":{},\"schedule\":{:?},\"value\":{},\"ops\":{}}}",
                                    row,
                                    jesc(&format!("{:?}", caller)),
                                    st.last_script,
                                    jesc(&ex.value),
                                    jlist(&ex.ops.iter().map(|o| format!("t{}[{}] {}", o.thread, o.name.clone().unwrap_or_default(), o.site)).collect::<Vec<_>>())
                                );
                            }
                            if let Some((msg, script, ex)) = first_bad {
                                // replay the failing schedule: same observation required before it is believed
                                vrt::set_inp(&row);
                                let again = run_one(p.m, *caller, &script);
                                let same = again.log == ex.log && again.value == ex.value && again.deadlock == ex.deadlock;
                                if viols.len() < 3 {
                                    viols.push(format!(
                                        "{{\"row\":{:?},\"caller\":{},\"schedule\":{:?},\"what\":{},\"value\":{},\"reference_value\":{},\"log\":{},\"reference_log\":{},\"ops\":{},\"replay_identical\":{}}}",
                                        row,
                                        jesc(&format!("{:?}", caller)),
                                        script,
                                        jesc(&msg),
                                        jesc(&ex.value),
                                        jesc(&refv.0),
                                        jlist(&ex.log),
                                        jlist(&refv.1),
                                        jlist(&ex.ops.iter().map(|o| format!("t{}[{}] {} live={:?}", o.thread, o.name.clone().unwrap_or_default(), o.site, o.live_others)).collect::<Vec<_>>()),
                                        same
                                    ));
                                }
                            }
                        }
                    }
                }
            }
            writeln!(
                out,
                "{{\"id\":{},\"rows\":{},\"executions\":{},\"decisions\":{},\"states\":{},\"outcomes\":{},\"max_orders_per_row\":{},\"capped\":{},\"ohash\":\"{:x}\",\"nviol\":{},\"viols\":[{}],\"sample\":{},\"replay_ok\":{},\"ms\":{}}}",
                jesc(p.id),
                nrows,
                executions,
                decisions,
                states,
                outcomes.len(),
                max_orders_per_row,
                capped,
                {
                    use std::hash::{Hash, Hasher};
                    let mut h = std::collections::hash_map::DefaultHasher::new();
                    outcomes.hash(&mut h);
                    h.finish()
                },
                nviol,
                viols.join(","),
                if sample.is_empty() { "null".to_string() } else { sample },
                replay_ok,
                t0.elapsed().as_millis()
            )
            .unwrap();
            out.flush().unwrap();
        }
    }

    fn selftest_body() -> String {
        // 3 independent threads x 2 events each: exactly 6!/(2!2!2!) = 90 orders
        let hs: Vec<(usize, std::thread::JoinHandle<()>)> = (0..3)
            .map(|t| {
                let idx = register(None);
                (
                    idx,
                    std::thread::spawn(move || {
                        let _g = OsGuard::new();
                        enter(idx);
                        for i in 0..2 {
                            vrt::ev0(&format!("{}.0.{}", t, i));
                        }
                        finish(idx, false);
                    }),
                )
            })
            .collect();
        for (idx, h) in hs {
            block_join(idx);
            h.join().unwrap();
        }
        String::new()
    }
}
